package main

import (
	"fmt"
	"go/ast"
	"go/printer"
	"go/token"
	"go/types"
	"os"
	"path/filepath"
	"regexp"
	"sort"
	"strings"
	"sync"

	"golang.org/x/tools/go/ast/astutil"
	"golang.org/x/tools/go/packages"
	"golang.org/x/tools/go/ssa"
	"golang.org/x/tools/go/ssa/ssautil"
)

type Engine struct {
	searchK   int    // > 0 while generating for counterexample search (bounded unrolling)
	repo      string // /repo/teamserver
	fset      *token.FileSet
	prog      *ssa.Program
	pkgs      []*packages.Package
	allPkgs   map[string]*packages.Package
	pkgByName map[string]*types.Package
	funcs     map[string]*ssa.Function
	contracts *ContractSet
	fileOf    map[string]*ast.File // filename -> AST
	srcCache  map[string][]byte

	purePatterns []*regexp.Regexp
	pureText     []string
	effPatterns  []*regexp.Regexp
	pureMemo     map[*ssa.Function]int // 0 unknown, 1 computing, 2 pure, 3 impure
	pureWhy      map[*ssa.Function]string

	mu           sync.Mutex
	assumptions  map[string]bool
	globalInit   map[*ssa.Global]bool
	contractUses map[string]map[string]bool

	overflowChecks bool
}

func (e *Engine) useAssumption(s string) {
	e.mu.Lock()
	e.assumptions[s] = true
	e.mu.Unlock()
}

func (e *Engine) noteContractUse(fn string, c *Contract) {
	e.mu.Lock()
	if e.contractUses[fn] == nil {
		e.contractUses[fn] = map[string]bool{}
	}
	e.contractUses[fn][c.Key] = true
	e.mu.Unlock()
}

func LoadEngine(repo string, patterns []string) (*Engine, error) {
	e := &Engine{repo: repo, funcs: map[string]*ssa.Function{}, fileOf: map[string]*ast.File{}, srcCache: map[string][]byte{},
		allPkgs: map[string]*packages.Package{}, pkgByName: map[string]*types.Package{}, pureMemo: map[*ssa.Function]int{}, pureWhy: map[*ssa.Function]string{},
		assumptions: map[string]bool{}, contractUses: map[string]map[string]bool{}}
	cfg := &packages.Config{Mode: packages.LoadAllSyntax, Dir: repo, BuildFlags: []string{"-tags=verif"},
		Env: append(os.Environ(), "GOFLAGS=-mod=mod", "GOPROXY=off", "GOSUMDB=off", "GOTOOLCHAIN=local")}
	pkgs, err := packages.Load(cfg, patterns...)
	if err != nil {
		return nil, err
	}
	nerr := 0
	packages.Visit(pkgs, nil, func(p *packages.Package) {
		e.allPkgs[p.PkgPath] = p
		if p.Types != nil {
			if _, dup := e.pkgByName[p.Types.Name()]; !dup || strings.HasPrefix(p.PkgPath, "Havoc/") {
				e.pkgByName[p.Types.Name()] = p.Types
			}
		}
		for _, er := range p.Errors {
			if strings.HasPrefix(p.PkgPath, "Havoc/") {
				fmt.Fprintf(os.Stderr, "load error: %s: %v\n", p.PkgPath, er)
				nerr++
			}
		}
	})
	if nerr > 0 {
		return nil, fmt.Errorf("%d errors loading packages", nerr)
	}
	e.pkgs = pkgs
	prog, _ := ssautil.AllPackages(pkgs, ssa.GlobalDebug|ssa.InstantiateGenerics)
	prog.Build()
	e.prog = prog
	e.fset = prog.Fset
	for fn := range ssautil.AllFunctions(prog) {
		e.funcs[fn.String()] = fn
	}
	for _, p := range e.allPkgs {
		if !strings.HasPrefix(p.PkgPath, "Havoc/") {
			continue
		}
		for i, f := range p.Syntax {
			if i < len(p.CompiledGoFiles) {
				e.fileOf[p.CompiledGoFiles[i]] = f
			}
		}
	}
	return e, nil
}

func (e *Engine) typesPkg(path string) *types.Package {
	if p, ok := e.allPkgs[path]; ok {
		return p.Types
	}
	return nil
}

func (e *Engine) LoadContracts(specsDir string) {
	e.contracts = NewContractSet()
	e.contracts.LoadRepoContracts(e.repo, "Havoc")
	e.contracts.LoadSpecsDir(specsDir)
	loadStable(filepath.Join(specsDir, "stable.txt"))
	loadSyncMaps(filepath.Join(specsDir, "syncmaps.txt"))
	e.resolveStableGlobals()
	// assume-pure lists (*.pure) and heap-neutral effects (*.effect)
	ms, _ := filepath.Glob(filepath.Join(specsDir, "*.pure"))
	ms2, _ := filepath.Glob(filepath.Join(specsDir, "*.effect"))
	ms = append(ms, ms2...)
	for _, m := range ms {
		b, err := os.ReadFile(m)
		if err != nil {
			continue
		}
		for _, l := range strings.Split(string(b), "\n") {
			l = strings.TrimSpace(l)
			if l == "" || strings.HasPrefix(l, "#") {
				continue
			}
			for _, w := range strings.Fields(l) {
				rx := "^" + strings.ReplaceAll(regexp.QuoteMeta(w), `\*`, `.*`) + "$"
				if strings.HasSuffix(m, ".effect") {
					e.effPatterns = append(e.effPatterns, regexp.MustCompile(rx))
					continue
				}
				e.purePatterns = append(e.purePatterns, regexp.MustCompile(rx))
				e.pureText = append(e.pureText, w)
			}
		}
	}
}

var pendingStableGlobals []string

// resolveStableGlobals: "global <pkg>.<Var>" lines declare every leaf of that
// package-level variable stable (set once at initialisation).
func (e *Engine) resolveStableGlobals() {
	for _, g := range pendingStableGlobals {
		i := strings.LastIndex(g, ".")
		if i < 0 {
			continue
		}
		p := e.typesPkg(g[:i])
		if p == nil {
			continue
		}
		o := p.Scope().Lookup(g[i+1:])
		if o == nil {
			continue
		}
		stableDecl[typeKey(o.Type())] = append(stableDecl[typeKey(o.Type())], "*")
	}
}

func loadStable(path string) {
	b, err := os.ReadFile(path)
	if err != nil {
		return
	}
	for _, l := range strings.Split(string(b), "\n") {
		l = strings.TrimSpace(l)
		if l == "" || strings.HasPrefix(l, "#") {
			continue
		}
		f := strings.Fields(l)
		if len(f) >= 2 {
			p := f[1]
			if p == "." {
				p = ""
			}
			if f[0] == "global" {
				pendingStableGlobals = append(pendingStableGlobals, f[1])
				continue
			}
			stableDecl[f[0]] = append(stableDecl[f[0]], p)
		}
	}
}

func (e *Engine) isHeapNeutralEffect(key string) bool {
	for _, p := range e.effPatterns {
		if p.MatchString(key) {
			return true
		}
	}
	return false
}

func (e *Engine) isAssumedPure(key string) bool {
	for _, p := range e.purePatterns {
		if p.MatchString(key) {
			return true
		}
	}
	return false
}

// heapPure: effect inference. A repo function is heap-pure when it (and
// everything it can call) performs no store to memory that existed before the
// call, no map update on such memory, no channel operation, and calls only
// heap-pure or assumed-pure functions. This is checked, not assumed.
func (e *Engine) heapPure(fn *ssa.Function) bool {
	e.mu.Lock()
	defer e.mu.Unlock()
	return e.heapPureLocked(fn)
}

func localRoot(v ssa.Value) bool {
	for {
		switch x := v.(type) {
		case *ssa.Alloc:
			return true
		case *ssa.MakeSlice, *ssa.MakeMap:
			return true
		case *ssa.FieldAddr:
			v = x.X
		case *ssa.IndexAddr:
			v = x.X
		case *ssa.Slice:
			v = x.X
		default:
			return false
		}
	}
}

func (e *Engine) heapPureLocked(fn *ssa.Function) bool {
	switch e.pureMemo[fn] {
	case 2:
		return true
	case 3:
		return false
	case 1:
		return true // optimistic on recursion
	}
	if fn.Blocks == nil {
		e.pureMemo[fn] = 3
		return false
	}
	e.pureMemo[fn] = 1
	why := ""
	bad := func(s string) { why = s }
	for _, b := range fn.Blocks {
		for _, ins := range b.Instrs {
			if why != "" {
				break
			}
			switch x := ins.(type) {
			case *ssa.Store:
				if !localRoot(x.Addr) {
					bad("store " + x.String())
				}
			case *ssa.MapUpdate:
				if !localRoot(x.Map) {
					bad("map update")
				}
			case *ssa.Send, *ssa.Select, *ssa.Go, *ssa.Defer:
				bad(fmt.Sprintf("%T", x))
			case *ssa.UnOp:
				if x.Op == token.ARROW {
					bad("receive")
				}
			case *ssa.Call:
				cc := x.Common()
				if cc.IsInvoke() {
					key := fmt.Sprintf("(%s).%s", typeKey(cc.Value.Type()), cc.Method.Name())
					if !e.isAssumedPure(key) {
						bad("invoke " + key)
					}
					continue
				}
				switch c := cc.Value.(type) {
				case *ssa.Builtin:
					switch c.Name() {
					case "append", "copy":
						if !localRoot(cc.Args[0]) {
							// append may write in place into the argument's spare capacity
							bad("append/copy into non-local")
						}
					case "delete":
						if !localRoot(cc.Args[0]) {
							bad("delete")
						}
					}
				case *ssa.Function:
					key := c.String()
					if con := e.contracts.byKey[key]; con != nil {
						if !con.Pure {
							bad("calls contracted impure " + key)
						}
						continue
					}
					if e.isAssumedPure(key) {
						continue
					}
					if c.Blocks == nil || !e.heapPureLocked(c) {
						bad("calls " + key)
					}
				default:
					bad("dynamic call")
				}
			}
		}
	}
	if why != "" {
		e.pureMemo[fn] = 3
		e.pureWhy[fn] = why
		return false
	}
	e.pureMemo[fn] = 2
	return true
}

// ---------------------------------------------------------------- source text

func (e *Engine) sourceExprAt(pos token.Pos, want string) string {
	p := e.fset.Position(pos)
	f := e.fileOf[p.Filename]
	if f == nil {
		return ""
	}
	path, _ := astutil.PathEnclosingInterval(f, pos, pos)
	for _, n := range path {
		ok := false
		switch n.(type) {
		case *ast.IndexExpr:
			ok = want == "index" || want == ""
		case *ast.SliceExpr:
			ok = want == "slice" || want == ""
		case *ast.SelectorExpr:
			ok = want == "selector" || want == ""
		case *ast.CallExpr:
			ok = want == "call" || want == ""
		case *ast.TypeAssertExpr:
			ok = want == "assert" || want == ""
		case *ast.BinaryExpr:
			ok = want == "binary" || want == ""
		case *ast.AssignStmt, *ast.IncDecStmt, *ast.ExprStmt, *ast.RangeStmt, *ast.ReturnStmt:
			ok = want == ""
			if want != "" {
				// give up at statement level: use the statement head
				return e.nodeText(n)
			}
		}
		if ok {
			return e.nodeText(n)
		}
	}
	return ""
}

func (e *Engine) nodeText(n ast.Node) string {
	var sb strings.Builder
	printer.Fprint(&sb, e.fset, n)
	s := sb.String()
	if i := strings.Index(s, "\n"); i >= 0 {
		s = s[:i]
	}
	return s
}

// loopHeaderText returns the normalised text of the for statement whose
// header block is li.header, and its ordinal among equal headers in fn.
func (e *Engine) loopHeaderText(fn *ssa.Function, li *loopInfo) (string, int) {
	// position: use the first instruction with a position in the header or
	// the loop's blocks; find the innermost enclosing for/range statement
	// whose body contains it... simpler: collect all For/Range statements of
	// the function, match by the position of the header's condition.
	syn := fn.Syntax()
	if syn == nil {
		return "", 0
	}
	var loops []ast.Stmt
	ast.Inspect(syn, func(n ast.Node) bool {
		switch x := n.(type) {
		case *ast.FuncLit:
			if ast.Node(x) != syn {
				return false
			}
		case *ast.ForStmt, *ast.RangeStmt:
			loops = append(loops, x.(ast.Stmt))
		}
		return true
	})
	// choose the innermost loop statement that contains all positioned instrs of the loop blocks
	var minPos, maxPos token.Pos
	for b := range li.blocks {
		for _, ins := range b.Instrs {
			if _, isDbg := ins.(*ssa.DebugRef); isDbg {
				continue
			}
			if _, isPhi := ins.(*ssa.Phi); isPhi {
				continue
			}
			p := ins.Pos()
			if !p.IsValid() {
				continue
			}
			if !minPos.IsValid() || p < minPos {
				minPos = p
			}
			if p > maxPos {
				maxPos = p
			}
		}
	}
	var best ast.Stmt
	for _, l := range loops {
		if l.Pos() <= minPos && maxPos <= l.End() {
			if best == nil || (l.Pos() >= best.Pos() && l.End() <= best.End()) {
				best = l
			}
		}
	}
	if best == nil {
		// an instruction of the body carries a position outside the statement
		// (e.g. a load of a variable declared before the loop): fall back to the
		// innermost loop statement containing the header's first positioned instruction
		var hp token.Pos
		for _, ins := range li.header.Instrs {
			if _, isPhi := ins.(*ssa.Phi); isPhi {
				continue
			}
			if _, isDbg := ins.(*ssa.DebugRef); isDbg {
				continue
			}
			if ins.Pos().IsValid() {
				hp = ins.Pos()
				break
			}
		}
		for _, l := range loops {
			if hp.IsValid() && l.Pos() <= hp && hp <= l.End() {
				if best == nil || (l.Pos() >= best.Pos() && l.End() <= best.End()) {
					best = l
				}
			}
		}
	}
	if best == nil {
		if os.Getenv("HVC_DEBUG_LOOPS") != "" {
			fmt.Fprintf(os.Stderr, "loop header: no statement spans %v..%v in %s\n", e.fset.Position(minPos), e.fset.Position(maxPos), fn.String())
			for _, l := range loops {
				fmt.Fprintf(os.Stderr, "   candidate %v..%v\n", e.fset.Position(l.Pos()), e.fset.Position(l.End()))
			}
		}
		return "", 0
	}
	text := func(l ast.Stmt) string {
		var sb strings.Builder
		switch x := l.(type) {
		case *ast.ForStmt:
			c := *x
			c.Body = &ast.BlockStmt{}
			printer.Fprint(&sb, e.fset, &c)
		case *ast.RangeStmt:
			c := *x
			c.Body = &ast.BlockStmt{}
			printer.Fprint(&sb, e.fset, &c)
		}
		s := strings.TrimSpace(sb.String())
		s = regexp.MustCompile(`\s*\{\s*\}\s*$`).ReplaceAllString(s, "")
		return normHeader(s)
	}
	bt := text(best)
	ord := 0
	for _, l := range loops {
		if text(l) == bt {
			ord++
		}
		if l == best {
			break
		}
	}
	return bt, ord
}

// ---------------------------------------------------------------- generation

type FuncResult struct {
	Name     string
	Obligs   []*Oblig
	Assumes  []*Term
	Notes    []string
	SpecErrs []string
	Pre      []*Term
	BaseFacts []*Term
	AssumeBlk []int
	Watch     []watchItem
	PreConj   map[int]bool
	Covers    []*Oblig // reachability covers: the negation must NOT be provable
	anc       [][]bool // anc[b][a]: block a can reach block b in the back-edge-free CFG (or a == b)
	Contract *Contract
	Sweep    bool
	Instrs   int
	Blocks   int
}

// GenerateSearch: the same function under bounded unrolling (counterexample search).
func (e *Engine) GenerateSearch(fname string, sweep bool, k int) (*FuncResult, error) {
	e.searchK = k
	defer func() { e.searchK = 0 }()
	return e.Generate(fname, sweep)
}

func (e *Engine) Generate(fname string, sweep bool) (*FuncResult, error) {
	fn := e.funcs[fname]
	if fn == nil {
		return nil, fmt.Errorf("function not found: %s", fname)
	}
	if fn.Blocks == nil {
		return nil, fmt.Errorf("function has no body: %s", fname)
	}
	g := &gen{eng: e, fn: fn, fname: shortFunc(fname), con: e.contracts.byKey[fname], sweep: sweep,
		vals: map[ssa.Value]*Val{}, incoming: map[*ssa.BasicBlock][]*edge{}, done: map[*ssa.BasicBlock]bool{},
		loops: map[*ssa.BasicBlock]*loopInfo{}, rpoIdx: map[*ssa.BasicBlock]int{}, names: map[string]int{}, notes: map[string]bool{},
		params: map[string]*Val{}, varAt: map[string]ssa.Value{}, varAtBlock: map[*ssa.BasicBlock]map[string]ssa.Value{}, lastCall: map[string]*Val{}, lastCallBlock: map[*ssa.BasicBlock]map[string]*Val{}, lastArgs: map[string][]*Val{}, lastArgsBlock: map[*ssa.BasicBlock]map[string][]*Val{}, cutPhi: map[*ssa.Phi]*Val{}, closures: map[int]*closureInfo{},
		tupleAddrs: map[ssa.Value]map[int]*AddrInfo{}, deferArgs: map[*ssa.Defer][]*Val{}, rangeOver: map[*ssa.Range]*Val{},
		str2bytes: map[int]*Term{}, lockKeys: map[LeafKey][]lockUse{}, obligedAt: map[int][]*ssa.BasicBlock{}, localRefs: map[int]bool{}, globalsSeen: map[int]bool{}, boxed: map[int]*Val{}, varAll: map[string]map[ssa.Value]bool{}, univDone: map[string]bool{}, preConj: map[int]bool{}}
	g.searchK = e.searchK
	if g.con != nil && g.con.Trusted {
		return &FuncResult{Name: fname, Contract: g.con}, nil
	}
	baseFactHook = func(t *Term, univ func() *Term, name string) {
		if g.dry > 0 {
			return
		}
		if mentionsBound(t) {
			// a read under a binder: state the type fact for the whole base function, once
			if !g.univDone[name] {
				g.univDone[name] = true
				g.baseFacts = append(g.baseFacts, univ())
			}
			return
		}
		g.baseFacts = append(g.baseFacts, t)
	}
	g.run()
	baseFactHook = nil
	watch := g.inputWatch()
	r := &FuncResult{Name: fname, Obligs: g.obligs, Assumes: g.assumes, Contract: g.con, Sweep: sweep, SpecErrs: g.specErrors, Pre: g.preTerms, BaseFacts: g.baseFacts, AssumeBlk: g.assumeBlk, Watch: watch, PreConj: g.preConj}
	r.computeAncestors(fn)
	for i, rp := range g.retStates {
		if rp.st.reach.IsFalse() {
			continue
		}
		blk := -1
		if rp.blk != nil {
			blk = rp.blk.Index
		}
		r.Covers = append(r.Covers, &Oblig{Name: fmt.Sprintf("vac:unreachable-return:%s#%d", shortFunc(fname), i+1), Kind: "vacuity", Func: shortFunc(fname), Reach: rp.st.reach, Goal: False, NAssume: rp.nAssume, Blk: blk})
	}
	for n := range g.notes {
		r.Notes = append(r.Notes, n)
	}
	sort.Strings(r.Notes)
	for _, b := range fn.Blocks {
		r.Instrs += len(b.Instrs)
	}
	r.Blocks = len(fn.Blocks)
	if g.con != nil {
		for i := range g.con.CallGuards {
			// a guard whose condition is literally false is a prohibition: no match is the expected state
			if !g.con.CallGuards[i].Used && strings.TrimSpace(g.con.CallGuards[i].Cond.Text) != "false" {
				r.SpecErrs = append(r.SpecErrs, fmt.Sprintf("contract anchor lost: guard-call %q (%s) matched no call site in %s", g.con.CallGuards[i].Pattern.String(), g.con.CallGuards[i].Cond.Label, fname))
			}
			g.con.CallGuards[i].Used = false
		}
		for i := range g.con.StoreGuards {
			if !g.con.StoreGuards[i].Used && strings.TrimSpace(g.con.StoreGuards[i].Cond.Text) != "false" {
				r.SpecErrs = append(r.SpecErrs, fmt.Sprintf("contract anchor lost: guard-store %q (%s) matched no store in %s", g.con.StoreGuards[i].Pattern.String(), g.con.StoreGuards[i].Cond.Label, fname))
			}
			g.con.StoreGuards[i].Used = false
		}
		for _, l := range g.con.Loops {
			if !l.used {
				r.SpecErrs = append(r.SpecErrs, fmt.Sprintf("contract anchor lost: loop %q #%d not found in %s", l.Header, l.Ordinal, fname))
			}
		}
	}
	return r, nil
}

// shortFunc: "(*Havoc/pkg/common/parser.Parser).ParseInt32" -> "parser.(*Parser).ParseInt32"
func shortFunc(s string) string {
	re := regexp.MustCompile(`^\((\*?)([^)]*?)([^/.)]+)\.([^.)]+)\)\.(.*)$`)
	if m := re.FindStringSubmatch(s); m != nil {
		return fmt.Sprintf("%s.(%s%s).%s", m[3], m[1], m[4], m[5])
	}
	if i := strings.LastIndex(s, "/"); i >= 0 {
		return s[i+1:]
	}
	return s
}

var boundMemo = map[int]bool{}

// mentionsBound: does t mention a contract-level bound variable (named k.*)?
func mentionsBound(t *Term) bool {
	if v, ok := boundMemo[t.id]; ok {
		return v
	}
	r := false
	if t.Op == "var" && strings.HasPrefix(t.Name, "k.") {
		r = true
	}
	for _, a := range t.Args {
		if r {
			break
		}
		if mentionsBound(a) {
			r = true
		}
	}
	boundMemo[t.id] = r
	return r
}

func (r *FuncResult) computeAncestors(fn *ssa.Function) {
	n := len(fn.Blocks)
	r.anc = make([][]bool, n)
	// process in an order where preds (ignoring back edges) come first: use
	// repeated relaxation (n is small enough)
	for i := range r.anc {
		r.anc[i] = make([]bool, n)
		r.anc[i][i] = true
	}
	changed := true
	for changed {
		changed = false
		for _, b := range fn.Blocks {
			for _, p := range b.Preds {
				if b.Dominates(p) { // back edge
					continue
				}
				for a := 0; a < n; a++ {
					if r.anc[p.Index][a] && !r.anc[b.Index][a] {
						r.anc[b.Index][a] = true
						changed = true
					}
				}
			}
		}
	}
}

// namedType resolves "pkg/path.Name" to the named type.
func (e *Engine) namedType(full string) types.Type {
	i := strings.LastIndex(full, ".")
	if i < 0 {
		return nil
	}
	p := e.typesPkg(full[:i])
	if p == nil {
		return nil
	}
	o := p.Scope().Lookup(full[i+1:])
	if o == nil {
		return nil
	}
	return o.Type()
}

// initOnlyNonNil: the package-level pointer variable is written exactly once,
// by its package's initialiser, with the address of a fresh object, and its
// own address is used for nothing but loads and that store. Reads then yield
// a non-nil pointer, provided package initialisation has completed before any
// function under contract runs (recorded as an assumption where used).
func (e *Engine) initOnlyNonNil(gl *ssa.Global) bool {
	e.mu.Lock()
	defer e.mu.Unlock()
	if e.globalInit == nil {
		e.globalInit = map[*ssa.Global]bool{}
		type info struct {
			stores  int
			ok      bool
			escapes bool
		}
		inf := map[*ssa.Global]*info{}
		get := func(g *ssa.Global) *info {
			if inf[g] == nil {
				inf[g] = &info{}
			}
			return inf[g]
		}
		for _, fn := range e.funcs {
			for _, b := range fn.Blocks {
				for _, in := range b.Instrs {
					switch x := in.(type) {
					case *ssa.UnOp:
						continue // loads are harmless
					case *ssa.DebugRef:
						continue
					case *ssa.Store:
						if g, ok := x.Addr.(*ssa.Global); ok {
							i := get(g)
							i.stores++
							_, fresh := x.Val.(*ssa.Alloc)
							i.ok = fresh && fn.Name() == "init" && fn.Synthetic != "" && fn.Pkg == g.Pkg
						}
						if g, ok := x.Val.(*ssa.Global); ok {
							get(g).escapes = true
						}
						continue
					}
					for _, op := range in.Operands(nil) {
						if op == nil || *op == nil {
							continue
						}
						if g, ok := (*op).(*ssa.Global); ok {
							get(g).escapes = true
						}
					}
				}
			}
		}
		for g, i := range inf {
			e.globalInit[g] = i.stores == 1 && i.ok && !i.escapes
		}
	}
	return e.globalInit[gl]
}
