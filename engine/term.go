package main

// Hash-consed SMT terms with a light simplifier and an SMT-LIB2 printer that
// names shared sub-terms (define-fun) so that the emitted text stays linear in
// the size of the term DAG.

import (
	"sync"
	"fmt"
	"math/big"
	"sort"
	"strings"
)

type Sort int

const (
	SBool Sort = iota
	SInt
	SStr
)

func (s Sort) String() string {
	switch s {
	case SBool:
		return "Bool"
	case SInt:
		return "Int"
	case SStr:
		return "String"
	}
	return "?"
}

type Term struct {
	Op   string // "lit", "var", "app", or an SMT operator
	Args []*Term
	Sort Sort
	Name string   // var / app name
	I    *big.Int // int literal
	B    bool     // bool literal
	S    string   // string literal
	Q    []*Term  // bound vars for forall
	id   int
}

type FunDecl struct {
	Name string
	Args []Sort
	Ret  Sort
}

// TermStore owns the hash-consing table and the symbol declarations.
type TermStore struct {
	tab   map[string]*Term
	next  int
	funs  map[string]*FunDecl
	fresh map[string]int
	mu    sync.Mutex
}

func NewStore() *TermStore {
	return &TermStore{tab: map[string]*Term{}, funs: map[string]*FunDecl{}, fresh: map[string]int{}}
}

var TS = NewStore()

func (ts *TermStore) intern(t *Term) *Term {
	var sb strings.Builder
	sb.WriteString(t.Op)
	sb.WriteByte('|')
	sb.WriteString(t.Name)
	sb.WriteByte('|')
	if t.I != nil {
		sb.WriteString(t.I.String())
	}
	if t.Op == "lit" && t.Sort == SBool {
		if t.B {
			sb.WriteString("T")
		} else {
			sb.WriteString("F")
		}
	}
	if t.Op == "lit" && t.Sort == SStr {
		sb.WriteString(fmt.Sprintf("%q", t.S))
	}
	sb.WriteByte('|')
	sb.WriteString(t.Sort.String())
	for _, a := range t.Args {
		fmt.Fprintf(&sb, ",%d", a.id)
	}
	for _, a := range t.Q {
		fmt.Fprintf(&sb, ";%d", a.id)
	}
	k := sb.String()
	ts.mu.Lock()
	defer ts.mu.Unlock()
	if x, ok := ts.tab[k]; ok {
		return x
	}
	ts.next++
	t.id = ts.next
	ts.tab[k] = t
	return t
}

func sanitize(s string) string {
	var sb strings.Builder
	for _, r := range s {
		switch {
		case r >= 'a' && r <= 'z', r >= 'A' && r <= 'Z', r >= '0' && r <= '9', r == '_', r == '.', r == '$', r == '!':
			sb.WriteRune(r)
		default:
			sb.WriteByte('_')
		}
	}
	return sb.String()
}

// Fresh returns a new constant with a unique name derived from hint.
func Fresh(hint string, s Sort) *Term {
	hint = sanitize(hint)
	TS.fresh[hint]++
	name := fmt.Sprintf("%s!%d", hint, TS.fresh[hint])
	return Var(name, s)
}

func FreshFunName(hint string) string {
	hint = sanitize(hint)
	TS.fresh[hint]++
	return fmt.Sprintf("%s!%d", hint, TS.fresh[hint])
}

func Var(name string, s Sort) *Term {
	return TS.intern(&Term{Op: "var", Name: name, Sort: s})
}

func DeclareFun(name string, args []Sort, ret Sort) {
	if _, ok := TS.funs[name]; !ok {
		TS.funs[name] = &FunDecl{name, args, ret}
	}
}

func App(name string, ret Sort, args ...*Term) *Term {
	if _, ok := TS.funs[name]; !ok {
		as := make([]Sort, len(args))
		for i, a := range args {
			as[i] = a.Sort
		}
		TS.funs[name] = &FunDecl{name, as, ret}
	}
	return TS.intern(&Term{Op: "app", Name: name, Args: args, Sort: ret})
}

var (
	True  = TS.intern(&Term{Op: "lit", Sort: SBool, B: true})
	False = TS.intern(&Term{Op: "lit", Sort: SBool, B: false})
)

func Bool(b bool) *Term {
	if b {
		return True
	}
	return False
}

func Int(i int64) *Term { return IntBig(big.NewInt(i)) }
func IntBig(i *big.Int) *Term {
	return TS.intern(&Term{Op: "lit", Sort: SInt, I: new(big.Int).Set(i)})
}
func Str(s string) *Term { return TS.intern(&Term{Op: "lit", Sort: SStr, S: s}) }

func Pow2(n uint) *Term { return IntBig(new(big.Int).Lsh(big.NewInt(1), n)) }

func (t *Term) IsLit() bool   { return t.Op == "lit" }
func (t *Term) IsTrue() bool  { return t == True }
func (t *Term) IsFalse() bool { return t == False }

func mk(op string, s Sort, args ...*Term) *Term {
	return TS.intern(&Term{Op: op, Args: args, Sort: s})
}

func Not(a *Term) *Term {
	if a.IsTrue() {
		return False
	}
	if a.IsFalse() {
		return True
	}
	if a.Op == "not" {
		return a.Args[0]
	}
	return mk("not", SBool, a)
}

func And(as ...*Term) *Term {
	var out []*Term
	seen := map[int]bool{}
	for _, a := range as {
		if a.IsFalse() {
			return False
		}
		if a.IsTrue() {
			continue
		}
		if a.Op == "and" {
			for _, b := range a.Args {
				if !seen[b.id] {
					seen[b.id] = true
					out = append(out, b)
				}
			}
			continue
		}
		if !seen[a.id] {
			seen[a.id] = true
			out = append(out, a)
		}
	}
	for _, a := range out {
		if a.Op == "not" && seen[a.Args[0].id] {
			return False
		}
	}
	if len(out) == 0 {
		return True
	}
	if len(out) == 1 {
		return out[0]
	}
	return mk("and", SBool, out...)
}

func Or(as ...*Term) *Term {
	var out []*Term
	seen := map[int]bool{}
	for _, a := range as {
		if a.IsTrue() {
			return True
		}
		if a.IsFalse() {
			continue
		}
		if a.Op == "or" {
			for _, b := range a.Args {
				if !seen[b.id] {
					seen[b.id] = true
					out = append(out, b)
				}
			}
			continue
		}
		if !seen[a.id] {
			seen[a.id] = true
			out = append(out, a)
		}
	}
	for _, a := range out {
		if a.Op == "not" && seen[a.Args[0].id] {
			return True
		}
	}
	if len(out) == 0 {
		return False
	}
	if len(out) == 1 {
		return out[0]
	}
	return mk("or", SBool, out...)
}

func Implies(a, b *Term) *Term {
	if a.IsTrue() {
		return b
	}
	if a.IsFalse() || b.IsTrue() {
		return True
	}
	if b.IsFalse() {
		return Not(a)
	}
	return mk("=>", SBool, a, b)
}

func Ite(c, a, b *Term) *Term {
	if c.IsTrue() {
		return a
	}
	if c.IsFalse() {
		return b
	}
	if a == b {
		return a
	}
	if a.Sort == SBool {
		if a.IsTrue() && b.IsFalse() {
			return c
		}
		if a.IsFalse() && b.IsTrue() {
			return Not(c)
		}
		if a.IsTrue() {
			return Or(c, b)
		}
		if b.IsFalse() {
			return And(c, a)
		}
		if a.IsFalse() {
			return And(Not(c), b)
		}
		if b.IsTrue() {
			return Or(Not(c), a)
		}
	}
	return mk("ite", a.Sort, c, a, b)
}

func Eq(a, b *Term) *Term {
	if a == b {
		return True
	}
	if a.Sort != b.Sort {
		panic(fmt.Sprintf("Eq sort mismatch: %s vs %s", a, b))
	}
	if a.IsLit() && b.IsLit() {
		switch a.Sort {
		case SInt:
			return Bool(a.I.Cmp(b.I) == 0)
		case SBool:
			return Bool(a.B == b.B)
		case SStr:
			return Bool(a.S == b.S)
		}
	}
	if a.Sort == SBool {
		if a.IsTrue() {
			return b
		}
		if b.IsTrue() {
			return a
		}
		if a.IsFalse() {
			return Not(b)
		}
		if b.IsFalse() {
			return Not(a)
		}
	}
	// ite lifting when one side is a literal: (= (ite c x y) lit)
	if b.IsLit() && a.Op == "ite" && (a.Args[1].IsLit() || a.Args[2].IsLit()) {
		return Ite(a.Args[0], Eq(a.Args[1], b), Eq(a.Args[2], b))
	}
	if a.IsLit() && b.Op == "ite" && (b.Args[1].IsLit() || b.Args[2].IsLit()) {
		return Ite(b.Args[0], Eq(a, b.Args[1]), Eq(a, b.Args[2]))
	}
	if a.id > b.id {
		a, b = b, a
	}
	return mk("=", SBool, a, b)
}

func Neq(a, b *Term) *Term { return Not(Eq(a, b)) }

func cmp(op string, a, b *Term) *Term {
	if a.IsLit() && b.IsLit() {
		c := a.I.Cmp(b.I)
		switch op {
		case "<":
			return Bool(c < 0)
		case "<=":
			return Bool(c <= 0)
		}
	}
	if a == b {
		return Bool(op == "<=")
	}
	return mk(op, SBool, a, b)
}

func Lt(a, b *Term) *Term { return cmp("<", a, b) }
func Le(a, b *Term) *Term { return cmp("<=", a, b) }
func Gt(a, b *Term) *Term { return cmp("<", b, a) }
func Ge(a, b *Term) *Term { return cmp("<=", b, a) }

// linear normal form helpers: we only do light folding: (x + c1) + c2, lit+lit.
func splitConst(t *Term) (*Term, *big.Int) {
	if t.IsLit() {
		return nil, t.I
	}
	if t.Op == "+" && len(t.Args) == 2 && t.Args[1].IsLit() {
		return t.Args[0], t.Args[1].I
	}
	return t, big.NewInt(0)
}

func Add(a, b *Term) *Term {
	ra, ca := splitConst(a)
	rb, cb := splitConst(b)
	c := new(big.Int).Add(ca, cb)
	var rest *Term
	switch {
	case ra == nil && rb == nil:
		return IntBig(c)
	case ra == nil:
		rest = rb
	case rb == nil:
		rest = ra
	default:
		// x + (-x) patterns are not normalised; keep as is
		rest = mk("+", SInt, ra, rb)
	}
	if c.Sign() == 0 {
		return rest
	}
	return mk("+", SInt, rest, IntBig(c))
}

func Neg(a *Term) *Term {
	if a.IsLit() {
		return IntBig(new(big.Int).Neg(a.I))
	}
	if a.Op == "neg" {
		return a.Args[0]
	}
	return mk("neg", SInt, a)
}

func Sub(a, b *Term) *Term {
	if a == b {
		return Int(0)
	}
	if b.IsLit() {
		return Add(a, IntBig(new(big.Int).Neg(b.I)))
	}
	ra, ca := splitConst(a)
	rb, cb := splitConst(b)
	if ra != nil && ra == rb {
		return IntBig(new(big.Int).Sub(ca, cb))
	}
	// (x + c1) - (y + c2) = (x - y) + (c1-c2)
	if ra != nil && rb != nil && (ca.Sign() != 0 || cb.Sign() != 0) {
		return Add(mk("-", SInt, ra, rb), IntBig(new(big.Int).Sub(ca, cb)))
	}
	if ra == nil && rb != nil && cb.Sign() != 0 {
		return Add(mk("-", SInt, IntBig(big.NewInt(0)), rb), IntBig(new(big.Int).Sub(ca, cb)))
	}
	return mk("-", SInt, a, b)
}

func Mul(a, b *Term) *Term {
	if a.IsLit() && b.IsLit() {
		return IntBig(new(big.Int).Mul(a.I, b.I))
	}
	if a.IsLit() {
		a, b = b, a
	}
	if b.IsLit() {
		if b.I.Sign() == 0 {
			return Int(0)
		}
		if b.I.Cmp(big.NewInt(1)) == 0 {
			return a
		}
	}
	return mk("*", SInt, a, b)
}

// Div and Mod are SMT-LIB (Euclidean) div/mod; callers handle Go's truncation.
func Div(a, b *Term) *Term {
	if a.IsLit() && b.IsLit() && b.I.Sign() != 0 {
		q, _ := new(big.Int).DivMod(a.I, b.I, new(big.Int))
		return IntBig(q)
	}
	if b.IsLit() && b.I.Cmp(big.NewInt(1)) == 0 {
		return a
	}
	return mk("div", SInt, a, b)
}

func Mod(a, b *Term) *Term {
	if a.IsLit() && b.IsLit() && b.I.Sign() != 0 {
		_, m := new(big.Int).DivMod(a.I, b.I, new(big.Int))
		return IntBig(m)
	}
	// (mod (mod x m) m) = (mod x m)
	if a.Op == "mod" && a.Args[1] == b {
		return a
	}
	return mk("mod", SInt, a, b)
}

func StrLen(s *Term) *Term {
	if s.IsLit() {
		return Int(int64(len(s.S)))
	}
	return mk("str.len", SInt, s)
}

func StrCat(a, b *Term) *Term {
	if a.IsLit() && b.IsLit() {
		return Str(a.S + b.S)
	}
	if a.IsLit() && a.S == "" {
		return b
	}
	if b.IsLit() && b.S == "" {
		return a
	}
	return mk("str.++", SStr, a, b)
}

func Forall(vars []*Term, body *Term) *Term {
	if body.IsTrue() {
		return True
	}
	return TS.intern(&Term{Op: "forall", Args: []*Term{body}, Q: vars, Sort: SBool})
}

func Exists(vars []*Term, body *Term) *Term {
	if body.IsFalse() {
		return False
	}
	return TS.intern(&Term{Op: "exists", Args: []*Term{body}, Q: vars, Sort: SBool})
}

func (t *Term) String() string {
	var sb strings.Builder
	t.write(&sb, nil)
	return sb.String()
}

func smtString(s string) string {
	var sb strings.Builder
	sb.WriteByte('"')
	for i := 0; i < len(s); i++ {
		c := s[i]
		switch {
		case c == '"':
			sb.WriteString(`""`)
		case c == '\\' || c < 32 || c > 126:
			fmt.Fprintf(&sb, `\u{%x}`, c)
		default:
			sb.WriteByte(c)
		}
	}
	sb.WriteByte('"')
	return sb.String()
}

func quoteSym(s string) string {
	ok := true
	for _, r := range s {
		if !(r >= 'a' && r <= 'z' || r >= 'A' && r <= 'Z' || r >= '0' && r <= '9' || strings.ContainsRune("_.$!~&^<>@%*/+-=?", r)) {
			ok = false
		}
	}
	if ok && s != "" {
		return s
	}
	return "|" + s + "|"
}

func (t *Term) write(sb *strings.Builder, names map[int]string) {
	if names != nil {
		if n, ok := names[t.id]; ok {
			sb.WriteString(n)
			return
		}
	}
	t.writeBody(sb, names)
}

func (t *Term) writeBody(sb *strings.Builder, names map[int]string) {
	switch t.Op {
	case "lit":
		switch t.Sort {
		case SBool:
			if t.B {
				sb.WriteString("true")
			} else {
				sb.WriteString("false")
			}
		case SInt:
			if t.I.Sign() < 0 {
				sb.WriteString("(- ")
				sb.WriteString(new(big.Int).Neg(t.I).String())
				sb.WriteString(")")
			} else {
				sb.WriteString(t.I.String())
			}
		case SStr:
			sb.WriteString(smtString(t.S))
		}
	case "var":
		sb.WriteString(quoteSym(t.Name))
	case "app":
		if len(t.Args) == 0 {
			sb.WriteString(quoteSym(t.Name))
			return
		}
		sb.WriteString("(")
		sb.WriteString(quoteSym(t.Name))
		for _, a := range t.Args {
			sb.WriteByte(' ')
			a.write(sb, names)
		}
		sb.WriteString(")")
	case "neg":
		sb.WriteString("(- ")
		t.Args[0].write(sb, names)
		sb.WriteString(")")
	case "forall", "exists":
		sb.WriteString("(" + t.Op + " (")
		for _, v := range t.Q {
			fmt.Fprintf(sb, "(%s %s)", quoteSym(v.Name), v.Sort)
		}
		sb.WriteString(") ")
		t.Args[0].write(sb, names)
		sb.WriteString(")")
	default:
		sb.WriteString("(")
		sb.WriteString(t.Op)
		for _, a := range t.Args {
			sb.WriteByte(' ')
			a.write(sb, names)
		}
		sb.WriteString(")")
	}
}

// Script renders a query: declarations for every symbol used, definitions for
// shared sub-terms, then the given assertions.
type Script struct {
	Asserts []*Term
	Watch   []*Term
}

func collect(t *Term, cnt map[int]int, order *[]*Term, bound map[int]bool, hasBound map[int]bool) bool {
	cnt[t.id]++
	if cnt[t.id] > 1 {
		return hasBound[t.id]
	}
	hb := false
	if t.Op == "var" && bound[t.id] {
		hb = true
	}
	if t.Op == "forall" || t.Op == "exists" {
		nb := map[int]bool{}
		for k, v := range bound {
			nb[k] = v
		}
		for _, v := range t.Q {
			nb[v.id] = true
		}
		// sub-terms under binders are collected in a private count so they are
		// not hoisted out of the binder's scope if they mention bound vars
		inner := collect(t.Args[0], cnt, order, nb, hasBound)
		_ = inner
		// a quantifier is closed unless it mentions outer bound vars; treat
		// conservatively as containing bound vars only if outer scope has some
		hb = false
		if len(bound) > 0 {
			hb = true
		}
	} else {
		for _, a := range t.Args {
			if collect(a, cnt, order, bound, hasBound) {
				hb = true
			}
		}
	}
	hasBound[t.id] = hb
	*order = append(*order, t)
	return hb
}

func (s *Script) Render(logic string, opts []string) string {
	cnt := map[int]int{}
	hasBound := map[int]bool{}
	var order []*Term
	for _, a := range s.Asserts {
		collect(a, cnt, &order, map[int]bool{}, hasBound)
	}
	for _, a := range s.Watch {
		collect(a, cnt, &order, map[int]bool{}, hasBound)
	}
	var sb strings.Builder
	for _, o := range opts {
		sb.WriteString(o)
		sb.WriteByte('\n')
	}
	fmt.Fprintf(&sb, "(set-logic %s)\n", logic)
	// declarations
	vars := map[string]*Term{}
	funs := map[string]*FunDecl{}
	boundNames := map[string]bool{}
	for _, t := range order {
		if t.Op == "forall" || t.Op == "exists" {
			for _, v := range t.Q {
				boundNames[v.Name] = true
			}
		}
	}
	for _, t := range order {
		if t.Op == "var" && !boundNames[t.Name] {
			vars[t.Name] = t
		}
		if t.Op == "app" {
			funs[t.Name] = TS.funs[t.Name]
		}
	}
	var vn []string
	for n := range vars {
		vn = append(vn, n)
	}
	sort.Strings(vn)
	for _, n := range vn {
		fmt.Fprintf(&sb, "(declare-const %s %s)\n", quoteSym(n), vars[n].Sort)
	}
	var fn []string
	for n := range funs {
		fn = append(fn, n)
	}
	sort.Strings(fn)
	for _, n := range fn {
		f := funs[n]
		var as []string
		for _, a := range f.Args {
			as = append(as, a.String())
		}
		fmt.Fprintf(&sb, "(declare-fun %s (%s) %s)\n", quoteSym(n), strings.Join(as, " "), f.Ret)
	}
	// definitions of shared closed sub-terms
	names := map[int]string{}
	for _, t := range order {
		if cnt[t.id] > 1 && len(t.Args) > 0 && !hasBound[t.id] {
			n := fmt.Sprintf("$%d", t.id)
			fmt.Fprintf(&sb, "(define-fun %s () %s ", n, t.Sort)
			t.writeBody(&sb, names)
			sb.WriteString(")\n")
			names[t.id] = n
		}
	}
	for i, w := range s.Watch {
		fmt.Fprintf(&sb, "(define-fun w!%d () %s ", i, w.Sort)
		w.write(&sb, names)
		sb.WriteString(")\n")
	}
	for _, a := range s.Asserts {
		sb.WriteString("(assert ")
		a.write(&sb, names)
		sb.WriteString(")\n")
	}
	return sb.String()
}

// Symbols returns the set of free symbol names (vars and apps) in t.
func Symbols(t *Term, into map[string]bool, seen map[int]bool) {
	if seen[t.id] {
		return
	}
	seen[t.id] = true
	if t.Op == "var" || t.Op == "app" {
		into[t.Name] = true
	}
	for _, a := range t.Args {
		Symbols(a, into, seen)
	}
}

// Subst replaces every occurrence of the constant `from` in t by `to`.
func Subst(t, from, to *Term, memo map[int]*Term) *Term {
	if t == from {
		return to
	}
	if len(t.Args) == 0 {
		return t
	}
	if r, ok := memo[t.id]; ok {
		return r
	}
	changed := false
	args := make([]*Term, len(t.Args))
	for i, a := range t.Args {
		args[i] = Subst(a, from, to, memo)
		if args[i] != a {
			changed = true
		}
	}
	r := t
	if changed {
		c := *t
		c.Args = args
		c.id = 0
		r = TS.intern(&c)
	}
	memo[t.id] = r
	return r
}
