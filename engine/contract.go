package main

// Contract files: comment-only Go files (//go:build verif) next to the code in
// /repo, and *.hvs files in /verif/specs. Every contract line starts with
// "//@". Grammar (one item per line, continuation lines start with "//@   |"):
//
//   //@ package <import path>            (specs files only; repo files use their own package)
//   //@ func <Go function header>         starts a contract; parameter and result
//                                         names are bound by position
//   //@   requires [label:] <expr>
//   //@   ensures  [label:] <expr>
//   //@   modifies <lvalue>, <lvalue> ... | modifies *      (default: nothing)
//   //@   pure                             (no heap effect, no panics; result determined by ensures)
//   //@   trusted                          (assumed, not verified: dependencies)
//   //@   nopanic                          (trusted: cannot panic)
//   //@   loop "<for header text>" [#n]
//   //@     invariant [label:] <expr>
//   //@     decreases <expr>
//   //@   guard [label:] <expr>           every effect (store to pre-existing memory, non-pure call, go, send)
//                                         in the body is only reachable when <expr> (over the entry state) holds
//   //@   cover [label:] <expr>
//   //@ spec <name>(<params>) <type> = <expr>     (macro spec function)

import (
	"bufio"
	"fmt"
	"go/ast"
	"go/parser"
	"go/token"
	"os"
	"path/filepath"
	"regexp"
	"strings"
)

type Clause struct {
	Label string
	Text  string
	Expr  ast.Expr
	Src   string
	// Local: an "ensures-local" clause is proved for the body but not handed to
	// callers (a strong functional postcondition nobody relies on yet would only
	// make every caller's queries heavier)
	Local bool
}

type LoopSpec struct {
	Header     string
	Ordinal    int
	Invariants []Clause
	Decreases  ast.Expr
	DecText    string
	used       bool
}

func (l *LoopSpec) Label() string {
	s := "loop(" + shorten(l.Header) + ")"
	if l.Ordinal > 1 {
		s += fmt.Sprintf("#%d", l.Ordinal)
	}
	return s
}

type Contract struct {
	Key      string // canonical function name as printed by ssa.Function.String()
	Pkg      string
	Header   string
	Decl     *ast.FuncDecl
	Requires []Clause
	Ensures  []Clause
	Covers   []Clause
	Guards   []Clause
	CallGuards  []PatGuard
	GhostDefs   []GhostDef
	StoreGuards []PatGuard
	Modifies []ast.Expr
	ModText  []string
	ModAll   bool
	Pure     bool
	Trusted  bool
	NoPanic  bool
	Loops    []*LoopSpec
	Src      string
	Props    []string // property ids this contract's clauses are tagged with
}

type GhostDef struct {
	LHS, RHS ast.Expr
	Text     string
}

type PatGuard struct {
	Used    bool
	Pattern *regexp.Regexp
	Ordinal int // 0 = every call site; n = the n-th call site (source order) of a matching callee
	Cond    Clause
	Fresh   bool // guard-store "+pattern": also stores into objects allocated by this call
}

type SpecMacro struct {
	Name   string
	Params []string
	Body   ast.Expr
	Text   string
	// Rec: primitive recursion on the first parameter:
	//   recspec f(k, p...) = ite(k <= 0, base, step)   with f occurring in step only as f(k-1, p...)
	// Such a definition is total and consistent; applications become an
	// uninterpreted function (named after the heap versions the body reads)
	// plus one unfolding of the definition per application.
	Rec bool
	// Nat: base and step are non-negative by construction (sums, products and
	// ite of non-negative literals, len/cap and the recursive occurrence), so
	// by induction every value of the function is >= 0; applications carry
	// that fact.
	Nat bool
}

type ContractSet struct {
	byKey  map[string]*Contract
	macros map[string]*SpecMacro
	files  []string
	errs   []string
}

func NewContractSet() *ContractSet {
	return &ContractSet{byKey: map[string]*Contract{}, macros: map[string]*SpecMacro{}}
}

var labelRe = regexp.MustCompile(`^([A-Za-z_][A-Za-z0-9_\-]*):\s+(.*)$`)

// rewriteImplies turns "a ==> b" into implies__(a, b) and "a <==> b" into
// iff__(a, b), recursively inside parentheses, so that go/parser accepts it.
func rewriteImplies(s string) string {
	// find top-level operator positions
	depth := 0
	inStr := byte(0)
	idxImp, idxIff := -1, -1
	for i := 0; i < len(s); i++ {
		c := s[i]
		if inStr != 0 {
			if c == '\\' {
				i++
			} else if c == inStr {
				inStr = 0
			}
			continue
		}
		switch c {
		case '"', '`', '\'':
			inStr = c
		case '(', '[', '{':
			depth++
		case ')', ']', '}':
			depth--
		}
		if depth == 0 {
			if idxIff < 0 && strings.HasPrefix(s[i:], "<==>") {
				idxIff = i
				i += 3
				continue
			}
			if idxImp < 0 && strings.HasPrefix(s[i:], "==>") {
				idxImp = i
				i += 2
			}
		}
	}
	if idxIff >= 0 {
		return "iff__(" + rewriteImplies(s[:idxIff]) + ", " + rewriteImplies(s[idxIff+4:]) + ")"
	}
	if idxImp >= 0 {
		return "implies__(" + rewriteImplies(s[:idxImp]) + ", " + rewriteImplies(s[idxImp+3:]) + ")"
	}
	// recurse into groups
	var sb strings.Builder
	i := 0
	for i < len(s) {
		c := s[i]
		if c == '"' || c == '`' || c == '\'' {
			j := i + 1
			for j < len(s) && s[j] != c {
				if s[j] == '\\' {
					j++
				}
				j++
			}
			if j >= len(s) {
				j = len(s) - 1
			}
			sb.WriteString(s[i : j+1])
			i = j + 1
			continue
		}
		if c == '(' || c == '[' {
			// find matching close
			d := 0
			j := i
			in := byte(0)
			for ; j < len(s); j++ {
				cc := s[j]
				if in != 0 {
					if cc == '\\' {
						j++
					} else if cc == in {
						in = 0
					}
					continue
				}
				if cc == '"' || cc == '`' || cc == '\'' {
					in = cc
					continue
				}
				if cc == '(' || cc == '[' || cc == '{' {
					d++
				}
				if cc == ')' || cc == ']' || cc == '}' {
					d--
					if d == 0 {
						break
					}
				}
			}
			if j >= len(s) {
				sb.WriteString(s[i:])
				break
			}
			inner := s[i+1 : j]
			// split at top-level commas / colons (slice exprs)
			parts, seps := splitTop(inner)
			sb.WriteByte(c)
			for k, p := range parts {
				sb.WriteString(rewriteImplies(p))
				if k < len(seps) {
					sb.WriteByte(seps[k])
				}
			}
			sb.WriteByte(s[j])
			i = j + 1
			continue
		}
		sb.WriteByte(c)
		i++
	}
	return sb.String()
}

func splitTop(s string) (parts []string, seps []byte) {
	depth := 0
	in := byte(0)
	last := 0
	for i := 0; i < len(s); i++ {
		c := s[i]
		if in != 0 {
			if c == '\\' {
				i++
			} else if c == in {
				in = 0
			}
			continue
		}
		switch c {
		case '"', '`', '\'':
			in = c
		case '(', '[', '{':
			depth++
		case ')', ']', '}':
			depth--
		case ',', ':':
			if depth == 0 {
				parts = append(parts, s[last:i])
				seps = append(seps, c)
				last = i + 1
			}
		}
	}
	parts = append(parts, s[last:])
	return
}

func parseSpecExpr(text string) (ast.Expr, error) {
	return parser.ParseExpr(rewriteImplies(text))
}

func parseClause(rest, src string) (Clause, error) {
	c := Clause{Src: src}
	if m := labelRe.FindStringSubmatch(rest); m != nil {
		c.Label, rest = m[1], m[2]
	}
	c.Text = strings.TrimSpace(rest)
	e, err := parseSpecExpr(c.Text)
	if err != nil {
		return c, fmt.Errorf("%s: %v in %q", src, err, c.Text)
	}
	c.Expr = e
	return c, nil
}

func canonicalKey(pkg string, d *ast.FuncDecl) string {
	if d.Recv == nil || len(d.Recv.List) == 0 {
		return pkg + "." + d.Name.Name
	}
	rt := d.Recv.List[0].Type
	ptr := false
	if s, ok := rt.(*ast.StarExpr); ok {
		ptr = true
		rt = s.X
	}
	name := ""
	switch x := rt.(type) {
	case *ast.Ident:
		name = x.Name
	case *ast.SelectorExpr:
		name = x.Sel.Name
	}
	if ptr {
		return fmt.Sprintf("(*%s.%s).%s", pkg, name, d.Name.Name)
	}
	return fmt.Sprintf("(%s.%s).%s", pkg, name, d.Name.Name)
}

func (cs *ContractSet) LoadFile(path, defaultPkg string) {
	f, err := os.Open(path)
	if err != nil {
		cs.errs = append(cs.errs, err.Error())
		return
	}
	defer f.Close()
	cs.files = append(cs.files, path)
	sc := bufio.NewScanner(f)
	sc.Buffer(make([]byte, 1<<20), 1<<20)
	pkg := defaultPkg
	var cur *Contract
	var curLoop *LoopSpec
	var lines []struct {
		text string
		no   int
	}
	no := 0
	for sc.Scan() {
		no++
		l := strings.TrimSpace(sc.Text())
		if !strings.HasPrefix(l, "//@") {
			continue
		}
		l = strings.TrimSpace(l[3:])
		if l == "" || strings.HasPrefix(l, "#") {
			continue
		}
		if strings.HasPrefix(l, "|") && len(lines) > 0 {
			lines[len(lines)-1].text += " " + strings.TrimSpace(l[1:])
			continue
		}
		lines = append(lines, struct {
			text string
			no   int
		}{l, no})
	}
	for _, ln := range lines {
		l := ln.text
		src := fmt.Sprintf("%s:%d", path, ln.no)
		word, rest, _ := strings.Cut(l, " ")
		rest = strings.TrimSpace(rest)
		fail := func(err error) { cs.errs = append(cs.errs, err.Error()) }
		switch word {
		case "package":
			pkg = rest
		case "func":
			fnHeader := rest
			suffix := ""
			if i := strings.LastIndex(fnHeader, "$"); i >= 0 && !strings.Contains(fnHeader[i:], ")") {
				// closure: "func (a *Agent) TaskPrepare$1(...)": strip the suffix for parsing
			}
			m := regexp.MustCompile(`^(.*?)(\$[0-9$]+)\(`).FindStringSubmatchIndex(fnHeader)
			if m != nil {
				suffix = fnHeader[m[4]:m[5]]
				fnHeader = fnHeader[:m[4]] + fnHeader[m[5]:]
			}
			fset := token.NewFileSet()
			file, err := parser.ParseFile(fset, "", "package p\nfunc "+fnHeader, 0)
			if err != nil || len(file.Decls) == 0 {
				fail(fmt.Errorf("%s: cannot parse function header %q: %v", src, fnHeader, err))
				cur = nil
				continue
			}
			d := file.Decls[0].(*ast.FuncDecl)
			cur = &Contract{Pkg: pkg, Header: rest, Decl: d, Src: src}
			cur.Key = canonicalKey(pkg, d) + suffix
			curLoop = nil
			if old, dup := cs.byKey[cur.Key]; dup {
				// a specs file may extend a repo contract: merge
				cur = old
			} else {
				cs.byKey[cur.Key] = cur
			}
		case "spec", "recspec":
			// spec name(a, b) = expr
			m := regexp.MustCompile(`^([A-Za-z_][A-Za-z0-9_]*)\(([^)]*)\)\s*=\s*(.*)$`).FindStringSubmatch(rest)
			if m == nil {
				fail(fmt.Errorf("%s: bad spec macro", src))
				continue
			}
			e, err := parseSpecExpr(m[3])
			if err != nil {
				fail(fmt.Errorf("%s: %v", src, err))
				continue
			}
			var ps []string
			for _, p := range strings.Split(m[2], ",") {
				p = strings.TrimSpace(p)
				if p != "" {
					ps = append(ps, strings.Fields(p)[0])
				}
			}
			sm := &SpecMacro{Name: m[1], Params: ps, Body: e, Text: m[3], Rec: word == "recspec"}
			if sm.Rec {
				if err := checkPrimRec(sm); err != nil {
					fail(fmt.Errorf("%s: %v", src, err))
					continue
				}
			}
			cs.macros[m[1]] = sm
		default:
			if cur == nil {
				fail(fmt.Errorf("%s: clause %q outside a func block", src, word))
				continue
			}
			switch word {
			case "requires":
				c, err := parseClause(rest, src)
				if err != nil {
					fail(err)
					continue
				}
				cur.Requires = append(cur.Requires, c)
			case "ensures", "ensures-local":
				c, err := parseClause(rest, src)
				if err != nil {
					fail(err)
					continue
				}
				c.Local = word == "ensures-local"
				cur.Ensures = append(cur.Ensures, c)
			case "guard-call", "guard-store":
				// guard-call [label:] "<callee name regexp>" <expr>
				lab := ""
				r := rest
				if m := labelRe.FindStringSubmatch(r); m != nil {
					lab, r = m[1], m[2]
				}
				m := regexp.MustCompile(`^"([^"]*)"\s+(.*)$`).FindStringSubmatch(r)
				if m == nil {
					fail(fmt.Errorf("%s: bad %s clause", src, word))
					continue
				}
				ord := 0
				if mo := regexp.MustCompile(`^(.*)#(\d+)$`).FindStringSubmatch(m[1]); mo != nil {
					m[1] = mo[1]
					fmt.Sscanf(mo[2], "%d", &ord)
				}
				freshToo := false
				if word == "guard-store" && strings.HasPrefix(m[1], "+") {
					freshToo = true
					m[1] = m[1][1:]
				}
				pat := "^(" + m[1] + ")$"
				if word == "guard-store" {
					pat = m[1] // leaf names carry a package prefix: search, do not anchor
				}
				rx, err := regexp.Compile(pat)
				if err != nil {
					fail(fmt.Errorf("%s: %v", src, err))
					continue
				}
				c, err := parseClause(m[2], src)
				if err != nil {
					fail(err)
					continue
				}
				c.Label = lab
				if c.Label == "" {
					c.Label = word
				}
				if word == "guard-call" {
					cur.CallGuards = append(cur.CallGuards, PatGuard{false, rx, ord, c, false})
				} else {
					cur.StoreGuards = append(cur.StoreGuards, PatGuard{false, rx, 0, c, freshToo})
				}
			case "guard":
				c, err := parseClause(rest, src)
				if err != nil {
					fail(err)
					continue
				}
				if c.Label == "" {
					c.Label = fmt.Sprintf("guard%d", len(cur.Guards)+1)
				}
				cur.Guards = append(cur.Guards, c)
			case "ghost-def":
				// ghost-def <ghost lvalue> = <expr>   (definition of this function's effect on a ghost field)
				i := strings.Index(rest, " = ")
				if i < 0 {
					fail(fmt.Errorf("%s: bad ghost-def", src))
					continue
				}
				l, err1 := parseSpecExpr(strings.TrimSpace(rest[:i]))
				r, err2 := parseSpecExpr(strings.TrimSpace(rest[i+3:]))
				if err1 != nil || err2 != nil {
					fail(fmt.Errorf("%s: bad ghost-def expression", src))
					continue
				}
				cur.GhostDefs = append(cur.GhostDefs, GhostDef{l, r, rest})
			case "cover":
				c, err := parseClause(rest, src)
				if err != nil {
					fail(err)
					continue
				}
				cur.Covers = append(cur.Covers, c)
			case "modifies":
				if rest == "*" {
					cur.ModAll = true
					continue
				}
				parts, _ := splitTopComma(rest)
				for _, p := range parts {
					p = strings.TrimSpace(p)
					e, err := parseSpecExpr(p)
					if err != nil {
						fail(fmt.Errorf("%s: %v", src, err))
						continue
					}
					cur.Modifies = append(cur.Modifies, e)
					cur.ModText = append(cur.ModText, p)
				}
			case "pure":
				cur.Pure = true
			case "trusted":
				cur.Trusted = true
			case "nopanic":
				cur.NoPanic = true
			case "loop":
				m := regexp.MustCompile(`^"(.*)"\s*(?:#(\d+))?$`).FindStringSubmatch(rest)
				if m == nil {
					fail(fmt.Errorf("%s: bad loop header", src))
					continue
				}
				curLoop = &LoopSpec{Header: normHeader(m[1]), Ordinal: 1}
				if m[2] != "" {
					fmt.Sscanf(m[2], "%d", &curLoop.Ordinal)
				}
				cur.Loops = append(cur.Loops, curLoop)
			case "invariant":
				if curLoop == nil {
					fail(fmt.Errorf("%s: invariant outside loop", src))
					continue
				}
				c, err := parseClause(rest, src)
				if err != nil {
					fail(err)
					continue
				}
				if c.Label == "" {
					c.Label = fmt.Sprintf("inv%d", len(curLoop.Invariants)+1)
				}
				curLoop.Invariants = append(curLoop.Invariants, c)
			case "decreases":
				if curLoop == nil {
					fail(fmt.Errorf("%s: decreases outside loop", src))
					continue
				}
				e, err := parseSpecExpr(rest)
				if err != nil {
					fail(fmt.Errorf("%s: %v", src, err))
					continue
				}
				curLoop.Decreases, curLoop.DecText = e, rest
			default:
				fail(fmt.Errorf("%s: unknown clause %q", src, word))
			}
		}
	}
	// default labels
	for _, c := range cs.byKey {
		for i := range c.Requires {
			if c.Requires[i].Label == "" {
				c.Requires[i].Label = fmt.Sprintf("req%d", i+1)
			}
		}
		for i := range c.Ensures {
			if c.Ensures[i].Label == "" {
				c.Ensures[i].Label = fmt.Sprintf("ens%d", i+1)
			}
		}
	}
}

func splitTopComma(s string) ([]string, []byte) {
	var parts []string
	depth := 0
	last := 0
	for i := 0; i < len(s); i++ {
		switch s[i] {
		case '(', '[', '{':
			depth++
		case ')', ']', '}':
			depth--
		case ',':
			if depth == 0 {
				parts = append(parts, s[last:i])
				last = i + 1
			}
		}
	}
	parts = append(parts, s[last:])
	return parts, nil
}

func normHeader(s string) string {
	s = strings.TrimSpace(s)
	s = strings.TrimSpace(strings.TrimSuffix(s, "{"))
	return strings.Join(strings.Fields(s), " ")
}

// LoadRepoContracts finds every hvc_contracts_verif.go below root and derives
// the import path from the directory (module path + relative dir).
func (cs *ContractSet) LoadRepoContracts(root, modPath string) {
	filepath.Walk(root, func(p string, info os.FileInfo, err error) error {
		if err != nil {
			return nil
		}
		if info.IsDir() {
			if info.Name() == ".git" || info.Name() == "node_modules" {
				return filepath.SkipDir
			}
			return nil
		}
		if info.Name() == "hvc_contracts_verif.go" {
			rel, _ := filepath.Rel(root, filepath.Dir(p))
			pkg := modPath
			if rel != "." {
				pkg = modPath + "/" + filepath.ToSlash(rel)
			}
			cs.LoadFile(p, pkg)
		}
		return nil
	})
}

func (cs *ContractSet) LoadSpecsDir(dir string) {
	ms, _ := filepath.Glob(filepath.Join(dir, "*.hvs"))
	for _, m := range ms {
		cs.LoadFile(m, "")
	}
}

// checkPrimRec: the body is ite(k <= 0, base, step), base does not mention f,
// and every occurrence of f in step is f(k-1, p1, ..., pn) with the parameters unchanged.
func checkPrimRec(m *SpecMacro) error {
	if len(m.Params) == 0 {
		return fmt.Errorf("recspec %s: needs a recursion parameter", m.Name)
	}
	k := m.Params[0]
	c, ok := m.Body.(*ast.CallExpr)
	if !ok || exprString(c.Fun) != "ite" || len(c.Args) != 3 {
		return fmt.Errorf("recspec %s: body must be ite(%s <= 0, base, step)", m.Name, k)
	}
	if strings.ReplaceAll(exprString(c.Args[0]), " ", "") != k+"<=0" {
		return fmt.Errorf("recspec %s: condition must be %s <= 0", m.Name, k)
	}
	var err error
	check := func(e ast.Expr, allow bool) {
		ast.Inspect(e, func(n ast.Node) bool {
			call, ok := n.(*ast.CallExpr)
			if !ok || exprString(call.Fun) != m.Name {
				return true
			}
			if !allow {
				err = fmt.Errorf("recspec %s: the base case mentions %s", m.Name, m.Name)
				return false
			}
			if len(call.Args) != len(m.Params) || strings.ReplaceAll(exprString(call.Args[0]), " ", "") != k+"-1" {
				err = fmt.Errorf("recspec %s: recursive calls must be %s(%s-1, ...)", m.Name, m.Name, k)
				return false
			}
			for i := 1; i < len(m.Params); i++ {
				if exprString(call.Args[i]) != m.Params[i] {
					err = fmt.Errorf("recspec %s: recursive calls must pass the other parameters unchanged", m.Name)
					return false
				}
			}
			return true
		})
	}
	check(c.Args[1], false)
	check(c.Args[2], true)
	if err == nil {
		m.Nat = specNonNeg(c.Args[1], m.Name) && specNonNeg(c.Args[2], m.Name)
	}
	return err
}

// specNonNeg: the expression is >= 0 whatever its free variables denote,
// provided applications of rec (the induction hypothesis) are.
func specNonNeg(e ast.Expr, rec string) bool {
	switch x := e.(type) {
	case *ast.ParenExpr:
		return specNonNeg(x.X, rec)
	case *ast.BasicLit:
		return x.Kind == token.INT && !strings.HasPrefix(x.Value, "-")
	case *ast.BinaryExpr:
		if x.Op == token.ADD || x.Op == token.MUL {
			return specNonNeg(x.X, rec) && specNonNeg(x.Y, rec)
		}
	case *ast.CallExpr:
		switch exprString(x.Fun) {
		case "len", "cap", rec:
			return true
		case "ite":
			return len(x.Args) == 3 && specNonNeg(x.Args[1], rec) && specNonNeg(x.Args[2], rec)
		}
	}
	return false
}
