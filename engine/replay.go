package main

// Replay: turn the solver's counterexample into an in-package Go test, inject
// it with `go test -overlay` (nothing is written into /repo) and run it against
// the real code. A safe:* obligation is reproduced when the real code panics; a
// post obligation when the real code returns the values the counterexample
// predicts (which violate the clause by the solver's evaluation).

import (
	"time"
	"encoding/json"
	"fmt"
	"go/types"
	"os"
	"os/exec"
	"path/filepath"
	"regexp"
	"sort"
	"strconv"
	"strings"

	"golang.org/x/tools/go/ssa"
)

type watchItem struct {
	Name string
	Term *Term
}

const (
	watchBytes = 96
	watchElems = 4
	watchDepth = 3
)

// inputWatch lists the terms that describe the function's inputs in the entry
// state: parameters, the fields of the objects they point to, slice lengths
// and leading elements.
func (g *gen) inputWatch() []watchItem {
	var out []watchItem
	save := g.factCapture
	var sink []*Term
	g.factCapture = &sink
	defer func() { g.factCapture = save }()
	for _, p := range g.fn.Params {
		v := g.vals[p]
		if v == nil {
			continue
		}
		g.watchVal(&out, p.Name(), p.Type(), v, 0)
	}
	return out
}

func (g *gen) watchVal(out *[]watchItem, path string, t types.Type, v *Val, depth int) {
	if depth > watchDepth || len(*out) > 1500 {
		return
	}
	add := func(n string, tm *Term) { *out = append(*out, watchItem{n, tm}) }
	switch u := t.Underlying().(type) {
	case *types.Basic:
		if len(v.L) == 1 {
			add(path, v.L[0])
		}
	case *types.Slice:
		if len(v.L) != 4 {
			return
		}
		add(path+".len", v.Len())
		add(path+".nil", Eq(v.Arr(), Int(0)))
		n := watchElems
		if b, ok := u.Elem().Underlying().(*types.Basic); ok && b.Info()&types.IsInteger != 0 {
			n = watchBytes
		}
		for i := 0; i < n; i++ {
			ev := g.loadQuiet(g.entry, elemAddr(v, Int(int64(i))), u.Elem())
			g.watchVal(out, fmt.Sprintf("%s[%d]", path, i), u.Elem(), ev, depth+1)
		}
	case *types.Pointer:
		add(path+".nil", Eq(v.L[0], Int(0)))
		st, ok := u.Elem().Underlying().(*types.Struct)
		if !ok || v.Addr == nil || !v.Addr.Known {
			return
		}
		for i := 0; i < st.NumFields(); i++ {
			f := st.Field(i)
			a := *v.Addr
			a.Path = joinPath(a.Path, f.Name())
			fp := &Val{T: types.NewPointer(f.Type()), L: v.L, Addr: &a}
			if isStructT(f.Type()) {
				// embedded struct value: walk its fields through the same base
				g.watchStructAt(out, path+"."+f.Name(), f.Type(), fp, depth+1)
				continue
			}
			fv := g.loadQuiet(g.entry, fp, f.Type())
			g.watchVal(out, path+"."+f.Name(), f.Type(), fv, depth+1)
		}
	case *types.Struct:
		for i := 0; i < u.NumFields(); i++ {
			g.watchVal(out, path+"."+u.Field(i).Name(), u.Field(i).Type(), fieldOf(v, i), depth+1)
		}
	case *types.Interface, *types.Map, *types.Signature, *types.Chan:
		if len(v.L) >= 1 {
			add(path+".nil", Eq(v.L[0], Int(0)))
		}
	}
}

func (g *gen) watchStructAt(out *[]watchItem, path string, t types.Type, p *Val, depth int) {
	if depth > watchDepth {
		return
	}
	st := t.Underlying().(*types.Struct)
	for i := 0; i < st.NumFields(); i++ {
		f := st.Field(i)
		a := *p.Addr
		a.Path = joinPath(a.Path, f.Name())
		fp := &Val{T: types.NewPointer(f.Type()), L: p.L, Addr: &a}
		if isStructT(f.Type()) {
			g.watchStructAt(out, path+"."+f.Name(), f.Type(), fp, depth+1)
			continue
		}
		fv := g.loadQuiet(g.entry, fp, f.Type())
		g.watchVal(out, path+"."+f.Name(), f.Type(), fv, depth+1)
	}
}

// ---------------------------------------------------------------- model values

var getValueRe = regexp.MustCompile(`\(w!(\d+)\s+((?:"(?:[^"]|"")*")|(?:\(-\s*\d+\))|[^\s()]+)\)`)

func parseWatchValues(out string, items []watchItem) map[string]string {
	m := map[string]string{}
	for _, mm := range getValueRe.FindAllStringSubmatch(out, -1) {
		i, _ := strconv.Atoi(mm[1])
		if i < 0 || i >= len(items) {
			continue
		}
		v := mm[2]
		if strings.HasPrefix(v, "(-") {
			v = "-" + strings.TrimSpace(strings.Trim(v[2:], ")"))
		}
		m[items[i].Name] = v
	}
	return m
}

func smtStringToGo(s string) string {
	if len(s) >= 2 && s[0] == '"' {
		s = s[1 : len(s)-1]
	}
	s = strings.ReplaceAll(s, `""`, `"`)
	re := regexp.MustCompile(`\\u\{([0-9a-fA-F]+)\}|\\u([0-9a-fA-F]{4})`)
	var sb strings.Builder
	last := 0
	for _, loc := range re.FindAllStringSubmatchIndex(s, -1) {
		sb.WriteString(s[last:loc[0]])
		hex := ""
		if loc[2] >= 0 {
			hex = s[loc[2]:loc[3]]
		} else {
			hex = s[loc[4]:loc[5]]
		}
		n, _ := strconv.ParseInt(hex, 16, 32)
		if n < 256 {
			sb.WriteByte(byte(n))
		} else {
			sb.WriteRune(rune(n))
		}
		last = loc[1]
	}
	sb.WriteString(s[last:])
	return sb.String()
}

// ---------------------------------------------------------------- Go value builder

type builder struct {
	vals    map[string]string
	pkg     *types.Package
	imports map[string]string // path -> name
	fail    string
	pre     []string // statements before the call
	n       int
}

func (b *builder) qual(p *types.Package) string {
	if p == b.pkg {
		return ""
	}
	b.imports[p.Path()] = p.Name()
	return p.Name()
}

func (b *builder) typeStr(t types.Type) string { return types.TypeString(t, b.qual) }

func (b *builder) val(path string) (string, bool) {
	v, ok := b.vals[path]
	return v, ok
}

func (b *builder) build(t types.Type, path string, depth int) string {
	switch u := t.Underlying().(type) {
	case *types.Basic:
		v, ok := b.val(path)
		switch {
		case u.Info()&types.IsBoolean != 0:
			if ok && v == "true" {
				return "true"
			}
			return "false"
		case u.Info()&types.IsString != 0:
			if !ok {
				return `""`
			}
			return fmt.Sprintf("%s(%q)", b.typeStr(t), smtStringToGo(v))
		case u.Info()&types.IsInteger != 0:
			if !ok {
				v = "0"
			}
			if _, err := strconv.ParseInt(v, 10, 64); err != nil {
				if _, err2 := strconv.ParseUint(v, 10, 64); err2 != nil {
					v = "0"
				}
			}
			return fmt.Sprintf("%s(%s)", b.typeStr(t), v)
		}
		return fmt.Sprintf("%s(0)", b.typeStr(t))
	case *types.Slice:
		ln := 0
		if v, ok := b.val(path + ".len"); ok {
			ln, _ = strconv.Atoi(v)
		}
		if v, ok := b.val(path + ".nil"); ok && v == "true" && ln == 0 {
			return "nil"
		}
		if ln > 1<<16 || ln < 0 {
			b.fail = fmt.Sprintf("slice %s has length %d in the model: too large to replay", path, ln)
			return "nil"
		}
		var es []string
		for i := 0; i < ln; i++ {
			ep := fmt.Sprintf("%s[%d]", path, i)
			if _, isB := u.Elem().Underlying().(*types.Basic); isB {
				if v, ok := b.val(ep); ok {
					es = append(es, v)
				} else {
					es = append(es, "0")
				}
				continue
			}
			if i >= watchElems {
				es = append(es, b.zero(u.Elem()))
				continue
			}
			es = append(es, b.build(u.Elem(), ep, depth+1))
		}
		if bt, isB := u.Elem().Underlying().(*types.Basic); isB && bt.Info()&types.IsString != 0 {
			for i := range es {
				es[i] = fmt.Sprintf("%q", smtStringToGo(es[i]))
			}
		}
		return fmt.Sprintf("%s{%s}", b.typeStr(t), strings.Join(es, ", "))
	case *types.Pointer:
		if v, ok := b.val(path + ".nil"); ok && v == "true" {
			return "nil"
		}
		if n, ok := u.Elem().(*types.Named); ok && n.Obj().Pkg() != nil && n.Obj().Pkg().Path() == "Havoc/pkg/common/parser" && n.Obj().Name() == "Parser" {
			// constructor: fields are unexported outside the package
			buf := b.build(types.NewSlice(types.Typ[types.Byte]), path+".buffer", depth+1)
			q := b.qual(n.Obj().Pkg())
			if q == "" {
				be := "true"
				if v, ok := b.val(path + ".bigEndian"); ok {
					be = v
				}
				return fmt.Sprintf("&Parser{buffer: %s, bigEndian: %s}", buf, be)
			}
			b.n++
			name := fmt.Sprintf("hvcP%d", b.n)
			b.pre = append(b.pre, fmt.Sprintf("%s := %s.NewParser(%s)", name, q, buf))
			if v, ok := b.val(path + ".bigEndian"); ok && v == "false" {
				b.pre = append(b.pre, name+".SetBigEndian(false)")
			}
			return name
		}
		st, ok := u.Elem().Underlying().(*types.Struct)
		if !ok || depth > watchDepth {
			return "nil"
		}
		return "&" + b.structLit(u.Elem(), st, path, depth)
	case *types.Struct:
		return b.structLit(t, u, path, depth)
	case *types.Interface:
		if v, ok := b.val(path + ".nil"); ok && v == "true" {
			return "nil"
		}
		if n, ok := t.(*types.Named); ok && n.Obj().Name() == "TeamServer" && n.Obj().Pkg() == b.pkg {
			b.needStub()
			return "&hvcStubTS{}"
		}
		return "nil"
	}
	return b.zero(t)
}

func (b *builder) needStub() { b.imports["#stub"] = "1" }

func (b *builder) zero(t types.Type) string {
	switch u := t.Underlying().(type) {
	case *types.Basic:
		switch {
		case u.Info()&types.IsBoolean != 0:
			return "false"
		case u.Info()&types.IsString != 0:
			return `""`
		}
		return "0"
	case *types.Struct:
		return b.typeStr(t) + "{}"
	}
	return "nil"
}

func (b *builder) structLit(t types.Type, st *types.Struct, path string, depth int) string {
	var fs []string
	var tpkg *types.Package
	if n, ok := t.(*types.Named); ok {
		tpkg = n.Obj().Pkg()
	}
	if _, anon := t.(*types.Struct); anon {
		// anonymous struct type: cannot be named in a literal easily; zero value via field assignment is skipped
		return b.typeStr(t) + "{}"
	}
	for i := 0; i < st.NumFields(); i++ {
		f := st.Field(i)
		if !f.Exported() && tpkg != b.pkg {
			continue
		}
		if _, anon := f.Type().(*types.Struct); anon {
			continue // anonymous struct field: set after construction where known
		}
		switch f.Type().Underlying().(type) {
		case *types.Basic, *types.Slice:
			fs = append(fs, fmt.Sprintf("%s: %s", f.Name(), b.build(f.Type(), path+"."+f.Name(), depth+1)))
		case *types.Pointer:
			if depth < 2 {
				fs = append(fs, fmt.Sprintf("%s: %s", f.Name(), b.build(f.Type(), path+"."+f.Name(), depth+1)))
			}
		}
	}
	return fmt.Sprintf("%s{%s}", b.typeStr(t), strings.Join(fs, ", "))
}

// ---------------------------------------------------------------- driver

func (e *Engine) pkgDirOf(fn *ssa.Function) (dir, pkgName string) {
	if fn.Pkg == nil {
		return "", ""
	}
	p := e.allPkgs[fn.Pkg.Pkg.Path()]
	if p == nil || len(p.GoFiles) == 0 {
		return "", ""
	}
	return filepath.Dir(p.GoFiles[0]), fn.Pkg.Pkg.Name()
}

func (e *Engine) tryReplay(sr *SolveResult, rf *replayFile) bool {
	o := sr.Oblig
	fr := sr.FR
	if fr == nil || len(fr.Watch) == 0 {
		rf.Reason = "no input watch list for this function"
		return false
	}
	if !(strings.HasPrefix(o.Kind, "safe:") || o.Kind == "post") {
		rf.Reason = "no replay template for obligation kind " + o.Kind
		return false
	}
	fn := e.funcs[fr.Name]
	if fn == nil || fn.Parent() != nil {
		rf.Reason = "closures are not replayed"
		return false
	}
	// ask the solver for the input values under the same query
	items := fr.Watch
	if o.Kind == "post" && o.Watch != nil {
		var ks []string
		for k := range o.Watch {
			ks = append(ks, k)
		}
		sort.Strings(ks)
		for _, k := range ks {
			items = append(items, watchItem{k, o.Watch[k]})
		}
	}
	q := buildQueryWatch(fr, o, sr.Level, items)
	var vals map[string]string
	for _, s := range solvers {
		st, out, _ := runSolverRaw(s, q, 20000)
		if st == "sat" {
			vals = parseWatchValues(out, items)
			break
		}
	}
	if vals == nil {
		rf.Reason = "could not obtain input values from the solver"
		return false
	}
	rf.Inputs = vals
	dir, pkgName := e.pkgDirOf(fn)
	if dir == "" {
		rf.Reason = "package directory not found"
		return false
	}
	b := &builder{vals: vals, pkg: fn.Pkg.Pkg, imports: map[string]string{}}
	var args []string
	for _, p := range fn.Params {
		args = append(args, b.build(p.Type(), p.Name(), 0))
	}
	if b.fail != "" {
		rf.Reason = b.fail
		return false
	}
	call := ""
	sig := fn.Signature
	if sig.Recv() != nil {
		if args[0] == "nil" {
			rf.Reason = "model has a nil receiver"
		}
		call = fmt.Sprintf("hvcRecv.%s(%s)", fn.Name(), strings.Join(args[1:], ", "))
		b.pre = append(b.pre, "hvcRecv := "+args[0])
	} else {
		call = fmt.Sprintf("%s(%s)", fn.Name(), strings.Join(args, ", "))
	}
	nres := sig.Results().Len()
	var lhs []string
	for i := 0; i < nres; i++ {
		lhs = append(lhs, fmt.Sprintf("r%d", i))
	}
	var src strings.Builder
	fmt.Fprintf(&src, "package %s\n\nimport (\n\t\"fmt\"\n\t\"runtime/debug\"\n\t\"testing\"\n", pkgName)
	useStub := false
	var ips []string
	for p := range b.imports {
		if p == "#stub" {
			useStub = true
			continue
		}
		ips = append(ips, p)
	}
	sort.Strings(ips)
	if useStub {
		for _, p := range []string{"encoding/binary", "errors", "strconv", "Havoc/pkg/packager"} {
			found := false
			for _, q := range ips {
				if q == p {
					found = true
				}
			}
			if !found {
				ips = append(ips, p)
			}
		}
	}
	for _, p := range ips {
		if p == "fmt" || p == "testing" {
			continue
		}
		fmt.Fprintf(&src, "\t%q\n", p)
	}
	src.WriteString(")\n\n")
	if useStub {
		tpl, err := os.ReadFile(filepath.Join(verifDir, "engine", "templates", "agent_stub.go.txt"))
		if err == nil {
			src.Write(tpl)
			src.WriteString("\nvar _ = binary.BigEndian\nvar _ = errors.New\nvar _ = strconv.Itoa\n")
		}
	}
	src.WriteString("func TestHvcReplay(t *testing.T) {\n")
	src.WriteString("\tdefer func() {\n\t\tif r := recover(); r != nil {\n\t\t\tfmt.Printf(\"HVC-REPLAY PANIC: %v\\nHVC-REPLAY STACK:\\n%s\\n\", r, debug.Stack())\n\t\t}\n\t}()\n")
	for _, s := range b.pre {
		src.WriteString("\t" + s + "\n")
	}
	if nres > 0 {
		fmt.Fprintf(&src, "\t%s := %s\n", strings.Join(lhs, ", "), call)
		for i := range lhs {
			fmt.Fprintf(&src, "\tfmt.Printf(\"HVC-REPLAY RESULT %d: %%v\\n\", %s)\n", i, lhs[i])
		}
	} else {
		fmt.Fprintf(&src, "\t%s\n", call)
	}
	src.WriteString("\tfmt.Println(\"HVC-REPLAY DONE\")\n}\n")
	rf.ReplayTest = src.String()
	rf.ReplayPkg = fn.Pkg.Pkg.Path()
	ran, out := runReplayTest(e.repo, dir, rf.ReplayTest)
	rf.ReplayRan = ran
	rf.ReplayOut = out
	if len(rf.ReplayOut) > 6000 {
		rf.ReplayOut = rf.ReplayOut[:6000]
	}
	if !ran {
		return false
	}
	switch {
	case strings.HasPrefix(o.Kind, "safe:"):
		// reproduced when the real code panics AT the instruction of the obligation:
		// the stack of the recovered panic names its file and line (a panic anywhere
		// else - an input the preconditions exclude, say - is not a reproduction)
		rf.ReplayFail = strings.Contains(out, "HVC-REPLAY PANIC") && panicAtPos(out, o.Pos)
	case o.Kind == "post":
		// reproduced when every scalar result the model predicts is what the real code returns
		ok := nres > 0
		for i := 0; i < nres; i++ {
			want, has := vals[fmt.Sprintf("ret%d", i)]
			if !has {
				ok = false
				break
			}
			if m := regexp.MustCompile(fmt.Sprintf(`HVC-REPLAY RESULT %d: (.*)`, i)).FindStringSubmatch(out); m == nil || strings.TrimSpace(m[1]) != strings.Trim(want, `"`) {
				ok = false
			}
		}
		rf.ReplayFail = ok
	}
	return rf.ReplayFail
}

func runReplayTest(repo, pkgDir, src string) (bool, string) {
	tmp, err := os.MkdirTemp("/var/tmp", "hvc-replay.")
	if err != nil {
		return false, err.Error()
	}
	defer os.RemoveAll(tmp)
	tf := filepath.Join(tmp, "zz_hvc_replay_test.go")
	os.WriteFile(tf, []byte(src), 0644)
	ov := map[string]map[string]string{"Replace": {filepath.Join(pkgDir, "zz_hvc_replay_test.go"): tf}}
	ob, _ := json.Marshal(ov)
	of := filepath.Join(tmp, "ov.json")
	os.WriteFile(of, ob, 0644)
	cmd := exec.Command("bash", "-c", fmt.Sprintf("ulimit -v 8000000; cd %q && go test -overlay %q -vet=off -timeout 60s -count=1 -run '^TestHvcReplay$' -v .", pkgDir, of))
	cmd.Env = append(os.Environ(), "GOFLAGS=-mod=mod", "GOPROXY=off", "GOSUMDB=off", "GOTOOLCHAIN=local")
	out, _ := cmd.CombinedOutput()
	s := string(out)
	ran := strings.Contains(s, "HVC-REPLAY DONE") || strings.Contains(s, "HVC-REPLAY PANIC") || strings.Contains(s, "--- ")
	return ran, s
}

func cmdReplay(args []string) int {
	if len(args) < 1 {
		fmt.Fprintln(os.Stderr, "usage: hvc replay <replay.json>")
		return 2
	}
	b, err := os.ReadFile(args[0])
	if err != nil {
		fmt.Fprintln(os.Stderr, err)
		return 2
	}
	var rf replayFile
	if err := json.Unmarshal(b, &rf); err != nil {
		fmt.Fprintln(os.Stderr, err)
		return 2
	}
	fmt.Printf("obligation: %s\nfunction:   %s\nclause:     %s\nsolver:     %s (%s)\n", rf.Obligation, rf.Function, rf.Clause, rf.Solver, rf.Status)
	if rf.ReplayTest == "" {
		fmt.Println("no replay test was generated:", rf.Reason)
		fmt.Println(rf.SolverOut)
		return 1
	}
	dir := filepath.Join(repoDir, strings.TrimPrefix(rf.ReplayPkg, "Havoc/"))
	ran, out := runReplayTest(repoDir, dir, rf.ReplayTest)
	fmt.Println(out)
	if !ran {
		return 2
	}
	if strings.Contains(out, "HVC-REPLAY PANIC") {
		fmt.Println("replay: the real code panics on the counterexample input")
	}
	return 1
}

// searchReplay regenerates the function under bounded unrolling, picks the
// obligations of the same kind at the same source position, and replays the
// first model that reproduces on the real code.
func (e *Engine) searchReplay(sr *SolveResult, rf *replayFile, timeoutMs int) bool {
	o := sr.Oblig
	fr := sr.FR
	if o.Pos == "" {
		return false
	}
	// bounded unrolling multiplies the work of nested loops: only small functions
	// are searched (the dispatcher and other large functions are not)
	fn := e.funcs[fr.Name]
	if fn == nil || len(fn.Blocks) > 120 || e.loopCount(fn) > 3 {
		return false
	}
	deadline := time.Now().Add(60 * time.Second)
	if timeoutMs > 5000 {
		timeoutMs = 5000
	}
	for _, k := range []int{2, 4} {
		if time.Now().After(deadline) {
			return false
		}
		r2, err := e.GenerateSearch(fr.Name, fr.Sweep, k)
		if err != nil || r2 == nil {
			return false
		}
		tried := 0
		for _, o2 := range r2.Obligs {
			if o2.Kind != o.Kind || o2.Pos != o.Pos {
				continue
			}
			tried++
			if tried > 8 || time.Now().After(deadline) {
				break
			}
			s2 := solveOblig(r2, o2, timeoutMs, true) // thorough flag: no patient retry here, a sat answer is all that matters
			if s2 == nil || s2.Status != "sat" {
				continue
			}
			s2.FR = r2
			var rf2 replayFile = *rf
			if e.tryReplay(s2, &rf2) {
				rf.ReplayTest, rf.ReplayPkg, rf.ReplayRan, rf.ReplayFail, rf.ReplayOut, rf.Inputs = rf2.ReplayTest, rf2.ReplayPkg, rf2.ReplayRan, rf2.ReplayFail, rf2.ReplayOut, rf2.Inputs
				rf.Reason = fmt.Sprintf("failing input found by bounded unrolling (%d iterations) of the same function", k)
				return true
			}
		}
	}
	return false
}

// loopCount: number of back edges in the function's control-flow graph.
func (e *Engine) loopCount(fn *ssa.Function) int {
	n := 0
	for _, b := range fn.Blocks {
		for _, s := range b.Succs {
			if s.Dominates(b) {
				n++
			}
		}
	}
	return n
}

// panicAtPos: the replay output's stack trace mentions base(file):line of pos.
func panicAtPos(out, pos string) bool {
	i := strings.LastIndex(pos, "/")
	if pos == "" || i < 0 {
		return false
	}
	want := pos[i:] // "/file.go:123"
	st := strings.Index(out, "HVC-REPLAY STACK:")
	if st < 0 {
		return false
	}
	for _, l := range strings.Split(out[st:], "\n") {
		l = strings.TrimSpace(l)
		if j := strings.Index(l, want); j >= 0 {
			rest := l[j+len(want):]
			if rest == "" || rest[0] == ' ' || rest[0] == '+' {
				return true
			}
		}
	}
	return false
}
