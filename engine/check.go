package main

import (
	"sync"
	"bufio"
	"encoding/json"
	"flag"
	"fmt"
	"os"
	"path/filepath"
	"regexp"
	"runtime"
	"sort"
	"strconv"
	"strings"
	"time"
)

type PropFunc struct {
	Fn   string `json:"fn"`
	Mode string `json:"mode"` // "contract" (full: safety+frame+post) or "sweep" (safety only)
	// Only: if set, only the obligations of this function whose name matches
	// count for the property (the others belong to another property's check)
	Only string `json:"only,omitempty"`
}

type PropSpec struct {
	Title     string     `json:"title"`
	Functions []PropFunc `json:"functions"`
	// obligation kinds that count for this property (default: all)
	Kinds       []string `json:"kinds,omitempty"`
	Assumptions []string `json:"assumptions,omitempty"`
	NotReached  []string `json:"not_reached,omitempty"`
	Level       string   `json:"level,omitempty"`
	MinObligs   int      `json:"min_obligations,omitempty"`
}

type knownFinding struct {
	Prop  string
	Oblig string
	What  string
}

func loadProps(path string) (map[string]*PropSpec, error) {
	b, err := os.ReadFile(path)
	if err != nil {
		return nil, err
	}
	m := map[string]*PropSpec{}
	if err := json.Unmarshal(b, &m); err != nil {
		return nil, err
	}
	return m, nil
}

// KNOWN_FINDINGS.txt lines:
//   <prop> <obligation-name> <free text>
//   fixed: property=<id> <commit> <what failed>        (suppresses nothing)
func loadKnown(path string) []knownFinding {
	f, err := os.Open(path)
	if err != nil {
		return nil
	}
	defer f.Close()
	var out []knownFinding
	sc := bufio.NewScanner(f)
	for sc.Scan() {
		l := strings.TrimSpace(sc.Text())
		if l == "" || strings.HasPrefix(l, "#") || strings.HasPrefix(l, "fixed:") {
			continue
		}
		parts := strings.SplitN(l, "\t", 3)
		if len(parts) < 2 {
			continue
		}
		k := knownFinding{Prop: strings.TrimSpace(parts[0]), Oblig: strings.TrimSpace(parts[1])}
		if len(parts) == 3 {
			k.What = strings.TrimSpace(parts[2])
		}
		out = append(out, k)
	}
	return out
}

// UNDECIDED.txt lines: <obligation-name>\t<reason>
func loadUndecided(path string) map[string]string {
	m := map[string]string{}
	f, err := os.Open(path)
	if err != nil {
		return m
	}
	defer f.Close()
	sc := bufio.NewScanner(f)
	sc.Buffer(make([]byte, 1<<20), 1<<20)
	for sc.Scan() {
		l := strings.TrimSpace(sc.Text())
		if l == "" || strings.HasPrefix(l, "#") {
			continue
		}
		parts := strings.SplitN(l, "\t", 2)
		r := ""
		if len(parts) == 2 {
			r = parts[1]
		}
		m[strings.TrimSpace(parts[0])] = r
	}
	return m
}

var fileSafe = regexp.MustCompile(`[^A-Za-z0-9_.\-]+`)

func safeFile(s string) string {
	s = fileSafe.ReplaceAllString(s, "_")
	if len(s) > 150 {
		s = s[:150]
	}
	return s
}

type replayFile struct {
	Property   string            `json:"property"`
	Obligation string            `json:"obligation"`
	Kind       string            `json:"kind"`
	Function   string            `json:"function"`
	Position   string            `json:"position"`
	Clause     string            `json:"clause"`
	Status     string            `json:"solver_status"`
	Solver     string            `json:"solver"`
	Tried      []string          `json:"solvers_tried"`
	QuerySHA   string            `json:"query_sha256_prefix"`
	Model      map[string]string `json:"model,omitempty"`
	Inputs     map[string]string `json:"inputs,omitempty"`
	SolverOut  string            `json:"solver_output,omitempty"`
	ReplayTest string            `json:"replay_test,omitempty"`
	ReplayPkg  string            `json:"replay_pkg,omitempty"`
	ReplayRan  bool              `json:"replay_ran"`
	ReplayFail bool              `json:"replay_reproduced"`
	ReplayOut  string            `json:"replay_output,omitempty"`
	Reason     string            `json:"reason,omitempty"`
}

func cmdCheck(args []string) int {
	fs := flag.NewFlagSet("check", flag.ExitOnError)
	tier := fs.String("tier", "quick", "quick|thorough")
	fs.Parse(args[1:])
	id := args[0]
	if t := os.Getenv("VERIF_TIER"); t != "" && *tier == "" {
		*tier = t
	}
	seed := 0
	if s := os.Getenv("VERIF_SEED"); s != "" {
		seed, _ = strconv.Atoi(s)
	}
	t0 := time.Now()
	props, err := loadProps(filepath.Join(verifDir, "specs", "props.json"))
	if err != nil {
		fmt.Fprintln(os.Stderr, "cannot load props.json:", err)
		return 2
	}
	ps := props[id]
	if ps == nil {
		fmt.Fprintln(os.Stderr, "unknown property", id)
		return 2
	}
	eng, err := LoadEngine(repoDir, loadPatterns())
	outDir := verifDir
	if d := os.Getenv("HVC_OUT"); d != "" {
		outDir = d
	}
	replayDir := filepath.Join(outDir, "replays", id)
	os.MkdirAll(replayDir, 0755)
	if err != nil {
		// the tree does not load (type error etc.): cannot decide anything
		fmt.Fprintln(os.Stderr, "load failed:", err)
		return 2
	}
	eng.LoadContracts(filepath.Join(verifDir, "specs"))
	eng.overflowChecks = false
	known := loadKnown(filepath.Join(verifDir, "KNOWN_FINDINGS.txt"))
	undec := loadUndecided(filepath.Join(verifDir, "UNDECIDED.txt"))
	timeout := 10000
	if *tier == "thorough" {
		timeout = 60000
	}
	var violations []string
	report := func(obl, kind, fn, pos, clause, status, reason string, sr *SolveResult) {
		rf := replayFile{Property: id, Obligation: obl, Kind: kind, Function: fn, Position: pos, Clause: clause, Status: status, Reason: reason}
		suffix := " no-failing-input-found"
		if sr != nil {
			rf.Solver, rf.Tried, rf.QuerySHA, rf.Model = sr.Solver, sr.Tried, sr.QuerySHA, sr.Model
			out := sr.Raw
			if len(out) > 4000 {
				out = out[:4000] + "...(truncated)"
			}
			rf.SolverOut = out
			if sr.Status == "sat" {
				if rp := eng.tryReplay(sr, &rf); rp {
					suffix = ""
				}
			}
			// the model of a cut loop starts from an arbitrary state satisfying the
			// invariant and need not be reachable: look for a reachable failing
			// input by bounded unrolling (an under-approximation: counterexample
			// search only, the verdict does not depend on it)
			if suffix != "" && sr.Oblig != nil && sr.FR != nil && (strings.HasPrefix(kind, "safe:") || kind == "post") {
				if eng.searchReplay(sr, &rf, timeout) {
					suffix = ""
				}
			}
		}
		path := filepath.Join(replayDir, safeFile(obl)+".json")
		b, _ := json.MarshalIndent(rf, "", " ")
		os.WriteFile(path, b, 0644)
		violations = append(violations, fmt.Sprintf("VIOLATION property=%s replay=%s obligation=%s%s", id, path, obl, suffix))
	}
	// contract parse errors are anchor failures
	for _, e := range eng.contracts.errs {
		report("contract:"+safeFile(e), "contract", "", "", e, "error", "contract file does not parse", nil)
	}
	var rs []*FuncResult
	var fnames []string
	nInstr := 0
	for _, pf := range ps.Functions {
		if eng.funcs[pf.Fn] == nil || eng.funcs[pf.Fn].Blocks == nil {
			report("anchor:"+pf.Fn, "anchor", pf.Fn, "", "", "error", "contract anchor lost: function not found in the current tree", nil)
			continue
		}
		r, err := eng.Generate(pf.Fn, pf.Mode == "sweep")
		if err != nil {
			report("anchor:"+pf.Fn, "anchor", pf.Fn, "", "", "error", err.Error(), nil)
			continue
		}
		for _, se := range r.SpecErrs {
			report("spec:"+shortFunc(pf.Fn)+":"+safeFile(se), "spec", pf.Fn, "", se, "error", "contract does not evaluate against the current code: "+se, nil)
		}
		if pf.Mode != "sweep" && r.Contract == nil {
			report("anchor:"+pf.Fn, "anchor", pf.Fn, "", "", "error", "no contract found for function listed as 'contract'", nil)
		}
		if pf.Only != "" {
			re, err := regexp.Compile(pf.Only)
			if err != nil {
				report("anchor:"+pf.Fn, "anchor", pf.Fn, "", "", "error", "bad 'only' pattern: "+err.Error(), nil)
				continue
			}
			var keep []*Oblig
			for _, o := range r.Obligs {
				if re.MatchString(o.Name) {
					keep = append(keep, o)
				}
			}
			if len(keep) == 0 {
				report("anchor:"+pf.Fn+":only", "anchor", pf.Fn, "", "", "error", "contract anchor lost: no obligation of "+pf.Fn+" matches "+pf.Only, nil)
			}
			r.Obligs = keep
			// the other obligations of this function (checked, if at all, under another
			// property) are assumed after their program points; return-point covers
			// would report code made unreachable by one of them failing there
			r.Covers = nil
		}
		rs = append(rs, r)
		fnames = append(fnames, pf.Fn)
		nInstr += r.Instrs
	}
	skipNames = undec
	if os.Getenv("HVC_TRY_UNDECIDED") != "" {
		skipNames = nil
	}
	res := solveAll(rs, timeout, *tier == "thorough", runtime.NumCPU())
	// vacuity: preconditions + base facts must be satisfiable
	vac := map[string]string{}
	for _, r := range rs {
		if len(r.Pre) == 0 {
			continue
		}
		var sc Script
		sc.Asserts = append(sc.Asserts, r.BaseFacts...)
		sc.Asserts = append(sc.Asserts, r.Pre...)
		st, _, _ := runSolver(solvers[0], sc.Render("ALL", nil), timeout)
		vac[r.Name] = st
		if st == "unsat" {
			report("vac:"+shortFunc(r.Name), "vacuity", r.Name, "", "requires", "unsat", "the preconditions of this function are contradictory: every proof about it is vacuous", nil)
		}
	}
	// vacuity 2: every return point must be reachable under the assumptions
	// collected on the way (a contradictory contract makes everything after it
	// "provable")
	nCover, nCoverOK := 0, 0
	{
		type cj struct {
			r *FuncResult
			c *Oblig
		}
		var cjs []cj
		for _, r := range rs {
			for _, c := range r.Covers {
				cjs = append(cjs, cj{r, c})
			}
		}
		sts := make([]string, len(cjs))
		var wg sync.WaitGroup
		ch := make(chan int)
		for w := 0; w < runtime.NumCPU(); w++ {
			wg.Add(1)
			go func() {
				defer wg.Done()
				for i := range ch {
					q := buildQuery(cjs[i].r, cjs[i].c, 1)
					sts[i], _, _ = runSolver(solvers[0], q, 5000)
				}
			}()
		}
		for i := range cjs {
			ch <- i
		}
		close(ch)
		wg.Wait()
		for i, j := range cjs {
			nCover++
			if sts[i] == "unsat" {
				report(j.c.Name, "vacuity", j.r.Name, "", "reachability of a return point", "unsat", "the assumptions collected on every path to this return (ignoring the function's own preconditions) are contradictory: a contract assumed at a call site is inconsistent and proofs after that point are vacuous", nil)
			} else {
				nCoverOK++
			}
		}
	}
	byBackend := map[string]int{}
	solverTime := 0.0
	nObl, nDis, nUndec, nKnown := 0, 0, 0, 0
	var undecNames, knownLines []string
	var samples []map[string]any
	usedKnown := map[int]bool{}
	for _, s := range res {
		o := s.Oblig
		solverTime += s.Time
		if s.Status == "unsat" {
			if *tier == "thorough" && strings.HasSuffix(s.Confirm, ":sat") {
				report(o.Name, o.Kind, o.Func, o.Pos, o.Detail, "disagree", "solvers disagree: "+s.Solver+" unsat, "+s.Confirm, s)
				nObl++
				continue
			}
			nObl++
			nDis++
			if _, listed := undec[o.Name]; listed {
				// listed as undecided but proved in this run: the entry is stale
				fmt.Printf("NOTE: property=%s obligation listed in UNDECIDED.txt is discharged: %s\n", id, o.Name)
			}
			byBackend[s.Solver]++
			if len(samples) < 6 {
				samples = append(samples, map[string]any{"obligation": o.Name, "clause": o.Detail, "solver": s.Solver, "time_s": s.Time, "query_sha256_prefix": s.QuerySHA})
			}
			continue
		}
		// not discharged
		matched := false
		for i, k := range known {
			if k.Prop == id && k.Oblig == o.Name {
				matched = true
				usedKnown[i] = true
				nKnown++
				knownLines = append(knownLines, fmt.Sprintf("KNOWN-FINDING: property=%s %s %s", id, o.Name, k.What))
			}
		}
		if matched {
			continue
		}
		if reason, ok := undec[o.Name]; ok {
			nUndec++
			undecNames = append(undecNames, o.Name+" — "+reason)
			continue
		}
		nObl++
		report(o.Name, o.Kind, o.Func, o.Pos, o.Detail, s.Status, "", s)
	}
	if nObl == 0 && len(violations) == 0 {
		report("vac:no-obligations", "vacuity", "", "", "", "error", "no obligations were generated for this property", nil)
	}
	if ps.MinObligs > 0 && nObl+nKnown+nUndec < ps.MinObligs {
		report("vac:obligation-count", "vacuity", "", "", "", "error", fmt.Sprintf("only %d obligations generated, expected at least %d", nObl+nKnown+nUndec, ps.MinObligs), nil)
	}
	sort.Strings(knownLines)
	for _, l := range knownLines {
		fmt.Println(l)
	}
	for _, v := range violations {
		fmt.Println(v)
	}
	// evidence
	var assumptions []string
	for a := range eng.assumptions {
		assumptions = append(assumptions, a)
	}
	sort.Strings(assumptions)
	notes := map[string]bool{}
	for _, r := range rs {
		for _, n := range r.Notes {
			notes[shortFunc(r.Name)+": "+n] = true
		}
	}
	var noteList []string
	for n := range notes {
		noteList = append(noteList, n)
	}
	sort.Strings(noteList)
	standing := []string{
		"go/types + go/ssa (x/tools v0.29.0) lowering of the current /repo tree is the program semantics",
		"hvc's semantics of SSA instructions, heap model (Burstall/Bornat, versioned maps) and contract evaluator",
		"SMT solvers z3 5.1.0 / cvc5 1.0.3 / z3 4.8.12",
		"int and int64 arithmetic treated as mathematical (no overflow); slice and string lengths < 2^47",
		"64-bit platform",
		"no thread interleavings: every function is verified as sequential code",
	}
	allAssumptions := append(append([]string{}, standing...), ps.Assumptions...)
	allAssumptions = append(allAssumptions, assumptions...)
	for _, n := range ps.NotReached {
		allAssumptions = append(allAssumptions, "not reached: "+n)
	}
	ev := map[string]any{
		"property_id": id,
		"tier":        *tier,
		"seed":        seed,
		"level":       "proof",
		"wall_s":      time.Since(t0).Seconds(),
		"violations":  len(violations),
		"assumptions": allAssumptions,
		"coverage": map[string]any{
			"obligations":              nObl,
			"discharged":               nDis,
			"checker_cmd":              fmt.Sprintf("bin/hvc check %s --tier %s", id, *tier),
			"trusted_base":             standing,
			"functions_under_contract": fnames,
			"ssa_instructions":         nInstr,
			"by_backend":               byBackend,
			"solver_time_s":            solverTime,
			"undecided":                undecNames,
			"undecided_count":          nUndec,
			"known_findings":           knownLines,
			"known_findings_count":     nKnown,
			"vacuity":                  vac,
			"reachability_covers":      nCover,
			"reachability_covers_ok":   nCoverOK,
			"abstractions_and_notes":   noteList,
			"samples":                  samples,
			"explanation":              "one SMT query per named obligation generated from the current /repo SSA; discharged = some solver answered unsat on the negated VC",
		},
	}
	if len(samples) == 0 {
		ev["coverage"].(map[string]any)["samples"] = []map[string]any{{"note": "no obligation discharged"}}
	}
	os.MkdirAll(filepath.Join(outDir, "evidence"), 0755)
	b, _ := json.MarshalIndent(ev, "", " ")
	os.WriteFile(filepath.Join(outDir, "evidence", id+".json"), b, 0644)
	fmt.Printf("%s: %d obligations, %d discharged, %d known findings, %d undecided, %d violations (%.1fs)\n", id, nObl, nDis, nKnown, nUndec, len(violations), time.Since(t0).Seconds())
	if len(violations) > 0 {
		return 1
	}
	return 0
}
