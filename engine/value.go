package main

// Symbolic values. Every Go value is a flat vector of scalar "leaves"
// (Bool / Int / String terms) in a canonical order derived from its type:
//   bool, integers, pointers, maps, chans, funcs, interfaces : 1 leaf
//   string                                                    : 1 leaf (String)
//   slice                                                     : arr, off, len, cap
//   struct                                                    : concatenation of the fields' leaves
//   tuple                                                     : concatenation
// Pointers additionally carry generator-side address information (which leaf
// maps they address), because interior pointers (&x.f, &s[i]) are never
// materialised as SMT values.

import (
	"fmt"
	"go/types"
	"regexp"
	"math/big"
	"strings"
)

type LeafKind int

const (
	LKBool LeafKind = iota
	LKInt           // integer of Go type T (range known)
	LKStr
	LKRef   // pointer / map / chan: reference, nil = 0
	LKIface // interface box id, nil = 0
	LKFunc
	LKFloat // uninterpreted
	LKSliceArr
	LKSliceOff
	LKSliceLen
	LKSliceCap
	LKOpaque // unsupported content (arrays by value etc.)
)

type Leaf struct {
	Path string
	Kind LeafKind
	T    types.Type // Go type of the leaf's owner scalar (for ranges)
}

func (l Leaf) Sort() Sort {
	switch l.Kind {
	case LKBool:
		return SBool
	case LKStr:
		return SStr
	}
	return SInt
}

var leavesCache = map[types.Type][]Leaf{}

var typeKeyCache = map[types.Type]string{}
var byteRe = regexp.MustCompile(`\bbyte\b`)
var runeRe = regexp.MustCompile(`\brune\b`)
var anyRe = regexp.MustCompile(`\bany\b`)

// typeKey is the canonical name of a type (aliases byte/rune/any normalised).
func typeKey(t types.Type) string {
	if s, ok := typeKeyCache[t]; ok {
		return s
	}
	s := types.TypeString(t, nil)
	s = byteRe.ReplaceAllString(s, "uint8")
	s = runeRe.ReplaceAllString(s, "int32")
	s = anyRe.ReplaceAllString(s, "interface{}")
	typeKeyCache[t] = s
	return s
}

func leavesOf(t types.Type) []Leaf {
	if l, ok := leavesCache[t]; ok {
		return l
	}
	var out []Leaf
	switch u := t.Underlying().(type) {
	case *types.Basic:
		switch {
		case u.Info()&types.IsBoolean != 0:
			out = []Leaf{{"", LKBool, t}}
		case u.Info()&types.IsString != 0:
			out = []Leaf{{"", LKStr, t}}
		case u.Info()&types.IsInteger != 0:
			out = []Leaf{{"", LKInt, t}}
		case u.Kind() == types.UnsafePointer:
			out = []Leaf{{"", LKRef, t}}
		case u.Kind() == types.UntypedNil:
			out = []Leaf{{"", LKRef, t}}
		default:
			out = []Leaf{{"", LKFloat, t}}
		}
	case *types.Pointer, *types.Map, *types.Chan:
		out = []Leaf{{"", LKRef, t}}
	case *types.Signature:
		out = []Leaf{{"", LKFunc, t}}
	case *types.Interface:
		out = []Leaf{{"", LKIface, t}}
	case *types.Slice:
		out = []Leaf{{"arr", LKSliceArr, t}, {"off", LKSliceOff, t}, {"len", LKSliceLen, t}, {"cap", LKSliceCap, t}}
	case *types.Struct:
		for i := 0; i < u.NumFields(); i++ {
			f := u.Field(i)
			for _, l := range leavesOf(f.Type()) {
				p := f.Name()
				if l.Path != "" {
					p += "." + l.Path
				}
				out = append(out, Leaf{p, l.Kind, l.T})
			}
		}
		if len(out) == 0 {
			out = []Leaf{}
		}
	case *types.Tuple:
		for i := 0; i < u.Len(); i++ {
			for _, l := range leavesOf(u.At(i).Type()) {
				p := fmt.Sprintf("#%d", i)
				if l.Path != "" {
					p += "." + l.Path
				}
				out = append(out, Leaf{p, l.Kind, l.T})
			}
		}
	case *types.Array:
		// arrays by value: small arrays are flattened, others opaque
		if u.Len() <= 8 {
			for i := int64(0); i < u.Len(); i++ {
				for _, l := range leavesOf(u.Elem()) {
					p := fmt.Sprintf("[%d]", i)
					if l.Path != "" {
						p += "." + l.Path
					}
					out = append(out, Leaf{p, l.Kind, l.T})
				}
			}
		} else {
			out = []Leaf{{"", LKOpaque, t}}
		}
	default:
		out = []Leaf{{"", LKOpaque, t}}
	}
	leavesCache[t] = out
	return out
}

// AddrInfo: where a pointer points, as far as the generator knows.
type AddrInfo struct {
	Root  types.Type // type of the heap object (or element) the base ref denotes
	Path  string     // field path inside Root ("" = whole)
	Elem  bool       // base ref denotes an array object and Idx selects the element
	Idx   *Term
	Known bool
	Key   string // if set: heap map name to use instead of the type of Root (ghost fields)
}

type Val struct {
	T    types.Type
	L    []*Term
	Addr *AddrInfo // for pointer-typed values
}

func (v *Val) T0() *Term { return v.L[0] }

func (v *Val) String() string {
	var ss []string
	for _, l := range v.L {
		ss = append(ss, l.String())
	}
	return fmt.Sprintf("<%s: %s>", typeKey(v.T), strings.Join(ss, ", "))
}

func scalar(t types.Type, term *Term) *Val { return &Val{T: t, L: []*Term{term}} }

func intRange(t types.Type) (lo, hi *big.Int, ok bool) {
	b, isB := t.Underlying().(*types.Basic)
	if !isB || b.Info()&types.IsInteger == 0 {
		return nil, nil, false
	}
	p := func(n uint) *big.Int { return new(big.Int).Lsh(big.NewInt(1), n) }
	m1 := func(x *big.Int) *big.Int { return new(big.Int).Sub(x, big.NewInt(1)) }
	switch b.Kind() {
	case types.Int8:
		return new(big.Int).Neg(p(7)), m1(p(7)), true
	case types.Int16:
		return new(big.Int).Neg(p(15)), m1(p(15)), true
	case types.Int32:
		return new(big.Int).Neg(p(31)), m1(p(31)), true
	case types.Int, types.Int64:
		return new(big.Int).Neg(p(63)), m1(p(63)), true
	case types.Uint8:
		return big.NewInt(0), m1(p(8)), true
	case types.Uint16:
		return big.NewInt(0), m1(p(16)), true
	case types.Uint32:
		return big.NewInt(0), m1(p(32)), true
	case types.Uint, types.Uint64, types.Uintptr:
		return big.NewInt(0), m1(p(64)), true
	case types.UntypedInt, types.UntypedRune:
		return nil, nil, false
	}
	return nil, nil, false
}

func isUnsigned(t types.Type) bool {
	b, ok := t.Underlying().(*types.Basic)
	return ok && b.Info()&types.IsUnsigned != 0
}

func intBits(t types.Type) uint {
	b, ok := t.Underlying().(*types.Basic)
	if !ok {
		return 64
	}
	switch b.Kind() {
	case types.Int8, types.Uint8:
		return 8
	case types.Int16, types.Uint16:
		return 16
	case types.Int32, types.Uint32:
		return 32
	}
	return 64
}

// maxLen bounds every slice/string length; it makes len arithmetic on int
// overflow-free (standing assumption, listed in the evidence).
var maxLen = new(big.Int).Lsh(big.NewInt(1), 47)

// rangeFacts returns the type invariants of a value's leaves as a formula.
func rangeFacts(v *Val) *Term {
	ls := leavesOf(v.T)
	if len(ls) != len(v.L) {
		return True
	}
	var fs []*Term
	for i, l := range ls {
		x := v.L[i]
		switch l.Kind {
		case LKInt:
			if lo, hi, ok := intRange(l.T); ok {
				fs = append(fs, Le(IntBig(lo), x), Le(x, IntBig(hi)))
			}
		case LKRef, LKIface, LKFunc, LKSliceArr:
			fs = append(fs, Le(Int(0), x))
		case LKSliceOff:
			fs = append(fs, Le(Int(0), x), Le(x, IntBig(maxLen)))
		case LKSliceLen:
			fs = append(fs, Le(Int(0), x), Le(x, IntBig(maxLen)))
			// len <= cap is added below (cap is the next leaf)
			if i+1 < len(ls) && ls[i+1].Kind == LKSliceCap {
				fs = append(fs, Le(x, v.L[i+1]))
			}
			// nil slice (arr = 0) has len 0
			if i >= 2 && ls[i-2].Kind == LKSliceArr {
				fs = append(fs, Implies(Eq(v.L[i-2], Int(0)), Eq(v.L[i+1], Int(0))))
			}
		case LKSliceCap:
			fs = append(fs, Le(x, IntBig(maxLen)))
		case LKStr:
			fs = append(fs, Le(StrLen(x), IntBig(maxLen)))
		}
	}
	return And(fs...)
}

func freshVal(t types.Type, hint string) *Val {
	ls := leavesOf(t)
	v := &Val{T: t, L: make([]*Term, len(ls))}
	for i, l := range ls {
		n := hint
		if l.Path != "" {
			n += "." + l.Path
		}
		v.L[i] = Fresh(n, l.Sort())
	}
	if p, ok := t.Underlying().(*types.Pointer); ok {
		v.Addr = &AddrInfo{Root: p.Elem(), Known: true}
	}
	return v
}

func zeroVal(t types.Type) *Val {
	ls := leavesOf(t)
	v := &Val{T: t, L: make([]*Term, len(ls))}
	for i, l := range ls {
		switch l.Sort() {
		case SBool:
			v.L[i] = False
		case SStr:
			v.L[i] = Str("")
		default:
			v.L[i] = Int(0)
		}
	}
	if p, ok := t.Underlying().(*types.Pointer); ok {
		v.Addr = &AddrInfo{Root: p.Elem(), Known: true}
	}
	return v
}

func sameAddrShape(a, b *AddrInfo) bool {
	if a == nil || b == nil {
		return a == b
	}
	if !a.Known || !b.Known {
		return false
	}
	return a.Elem == b.Elem && a.Path == b.Path && a.Key == b.Key && types.Identical(a.Root, b.Root)
}

// iteVal merges two values of the same type.
func iteVal(c *Term, a, b *Val) *Val {
	if a == b || c.IsTrue() {
		return a
	}
	if c.IsFalse() {
		return b
	}
	if len(a.L) != len(b.L) {
		panic(fmt.Sprintf("iteVal: leaf mismatch %s vs %s", a, b))
	}
	v := &Val{T: a.T, L: make([]*Term, len(a.L))}
	for i := range a.L {
		v.L[i] = Ite(c, a.L[i], b.L[i])
	}
	if a.Addr != nil || b.Addr != nil {
		v.Addr = mergeAddr(c, a, b)
	}
	return v
}

func isNilConst(v *Val) bool {
	return len(v.L) == 1 && v.L[0].IsLit() && v.L[0].Sort == SInt && v.L[0].I.Sign() == 0
}

func mergeAddr(c *Term, a, b *Val) *AddrInfo {
	switch {
	case a.Addr == nil:
		return b.Addr
	case b.Addr == nil:
		return a.Addr
	case isNilConst(a):
		return b.Addr
	case isNilConst(b):
		return a.Addr
	}
	if sameAddrShape(a.Addr, b.Addr) {
		r := *a.Addr
		if r.Elem {
			r.Idx = Ite(c, a.Addr.Idx, b.Addr.Idx)
		}
		return &r
	}
	return &AddrInfo{Known: false}
}

// sub-value extraction for structs/tuples/arrays.
func fieldSlice(t types.Type, idx int) (lo, hi int, ft types.Type) {
	switch u := t.Underlying().(type) {
	case *types.Struct:
		off := 0
		for i := 0; i < u.NumFields(); i++ {
			n := len(leavesOf(u.Field(i).Type()))
			if i == idx {
				return off, off + n, u.Field(i).Type()
			}
			off += n
		}
	case *types.Tuple:
		off := 0
		for i := 0; i < u.Len(); i++ {
			n := len(leavesOf(u.At(i).Type()))
			if i == idx {
				return off, off + n, u.At(i).Type()
			}
			off += n
		}
	}
	panic("fieldSlice: bad type " + typeKey(t))
}

func fieldOf(v *Val, idx int) *Val {
	lo, hi, ft := fieldSlice(v.T, idx)
	r := &Val{T: ft, L: v.L[lo:hi]}
	if p, ok := ft.Underlying().(*types.Pointer); ok {
		r.Addr = &AddrInfo{Root: p.Elem(), Known: true}
	}
	return r
}

func fieldPath(t types.Type, idx int) string {
	return t.Underlying().(*types.Struct).Field(idx).Name()
}

func joinPath(a, b string) string {
	if a == "" {
		return b
	}
	if b == "" {
		return a
	}
	return a + "." + b
}

// slice helpers
func sliceVal(t types.Type, arr, off, ln, cp *Term) *Val {
	return &Val{T: t, L: []*Term{arr, off, ln, cp}}
}
func (v *Val) Arr() *Term { return v.L[0] }
func (v *Val) Off() *Term { return v.L[1] }
func (v *Val) Len() *Term { return v.L[2] }
func (v *Val) Cap() *Term { return v.L[3] }

func isSlice(t types.Type) bool  { _, ok := t.Underlying().(*types.Slice); return ok }
func isString(t types.Type) bool { b, ok := t.Underlying().(*types.Basic); return ok && b.Info()&types.IsString != 0 }
func isPointer(t types.Type) bool {
	_, ok := t.Underlying().(*types.Pointer)
	return ok
}
func isInterface(t types.Type) bool { _, ok := t.Underlying().(*types.Interface); return ok }
func isInteger(t types.Type) bool {
	b, ok := t.Underlying().(*types.Basic)
	return ok && b.Info()&types.IsInteger != 0
}
func isBoolean(t types.Type) bool {
	b, ok := t.Underlying().(*types.Basic)
	return ok && b.Info()&types.IsBoolean != 0
}
func isMap(t types.Type) bool { _, ok := t.Underlying().(*types.Map); return ok }

// wrapInt normalises a mathematical integer into the range of Go type t.
func wrapInt(x *Term, t types.Type) *Term {
	lo, hi, ok := intRange(t)
	if !ok {
		return x
	}
	if x.IsLit() && x.I.Cmp(lo) >= 0 && x.I.Cmp(hi) <= 0 {
		return x
	}
	bits := intBits(t)
	// a term with a syntactic non-negative bit bound below the type's width is in range already
	if b, ok := bitBound(x); ok {
		if (isUnsigned(t) && b <= bits) || (!isUnsigned(t) && b < bits) {
			return x
		}
	}
	if isUnsigned(t) {
		return Mod(x, Pow2(bits))
	}
	if bits == 64 {
		// int/int64: treated as mathematical (standing no-overflow assumption)
		return x
	}
	half := Pow2(bits - 1)
	return Sub(Mod(Add(x, half), Pow2(bits)), half)
}
