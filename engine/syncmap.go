package main

// sync.Map fields with a declared key/element type (specs/syncmaps.txt):
//   <struct type> <field> <key: string|int> <element type (ssa type string)>
// Load/Store/Delete/Range on such a field are modelled on two heap leaves
// (has, val) keyed by the unboxed key. Store gets obligations that the value
// has the declared dynamic type and is non-nil; Load may assume both.

import (
	"go/types"
	"os"
	"strings"

	"golang.org/x/tools/go/ssa"
)

type syncMapDecl struct {
	Owner, Field, Key, Elem string
	NonNil []string // pointer fields of the element that are non-nil for every stored entry
}

var syncMapDecls []syncMapDecl

func loadSyncMaps(path string) {
	b, err := os.ReadFile(path)
	if err != nil {
		return
	}
	for _, l := range strings.Split(string(b), "\n") {
		l = strings.TrimSpace(l)
		if l == "" || strings.HasPrefix(l, "#") {
			continue
		}
		f := strings.Fields(l)
		if len(f) >= 4 {
			d := syncMapDecl{Owner: f[0], Field: f[1], Key: f[2], Elem: f[3]}
			if len(f) >= 5 {
				d.NonNil = strings.Split(f[4], ",")
			}
			syncMapDecls = append(syncMapDecls, d)
		}
	}
}

func (g *gen) syncMapDeclFor(p *Val) *syncMapDecl {
	if p.Addr == nil || !p.Addr.Known || p.Addr.Elem {
		return nil
	}
	for i := range syncMapDecls {
		d := &syncMapDecls[i]
		if typeKey(p.Addr.Root) == d.Owner && p.Addr.Path == d.Field {
			return d
		}
	}
	return nil
}

func (g *gen) syncMapElemType(d *syncMapDecl) types.Type {
	// "*pkg.T": resolve through the loaded packages
	name := d.Elem
	ptr := strings.HasPrefix(name, "*")
	name = strings.TrimPrefix(name, "*")
	i := strings.LastIndex(name, ".")
	if i < 0 {
		return nil
	}
	pkg := g.eng.typesPkg(name[:i])
	if pkg == nil {
		return nil
	}
	o := pkg.Scope().Lookup(name[i+1:])
	if o == nil {
		return nil
	}
	var t types.Type = o.Type()
	if ptr {
		t = types.NewPointer(t)
	}
	return t
}

func (g *gen) syncMapKeys(p *Val, d *syncMapDecl) (has, val LeafKey, ks Sort) {
	ks = SStr
	if d.Key == "int" {
		ks = SInt
	}
	base := "syncmap:" + d.Owner + "." + d.Field
	return LeafKey{Type: base, Path: "has", Elem: true}, LeafKey{Type: base, Path: "val", Elem: true}, ks
}

// unboxKey recovers the concrete key value from the interface argument.
func (g *gen) unboxKey(st *State, k *Val, d *syncMapDecl) *Term {
	if orig, ok := g.boxed[k.L[0].id]; ok && len(orig.L) == 1 {
		return orig.L[0]
	}
	if d.Key == "int" {
		return App(unboxName(types.Typ[types.Int], ""), SInt, k.L[0])
	}
	return App(unboxName(types.Typ[types.String], ""), SStr, k.L[0])
}

// syncMapOp handles a call of a (*sync.Map) method; returns true if modelled.
func (g *gen) syncMapOp(st *State, name string, args []*Val, rt types.Type, res ssa.Value, lbl string) bool {
	if !strings.HasPrefix(name, "(*sync.Map).") || len(args) == 0 {
		return false
	}
	d := g.syncMapDeclFor(args[0])
	if d == nil {
		return false
	}
	et := g.syncMapElemType(d)
	if et == nil {
		return false
	}
	hk, vk, ks := g.syncMapKeys(args[0], d)
	m := args[0].L[0]
	g.eng.useAssumption("sync.Map field " + d.Owner + "." + d.Field + " holds only " + d.Key + " -> " + d.Elem + " entries stored by verified code (specs/syncmaps.txt)")
	switch strings.TrimPrefix(name, "(*sync.Map).") {
	case "Load":
		key := g.unboxKey(st, args[1], d)
		has := st.heap.Get(hk, SBool, ks).Read(m, key)
		v := st.heap.Get(vk, SInt, ks).Read(m, key)
		b := Fresh("smload", SInt)
		g.assumeGlobal(Le(Int(0), b))
		g.assume(st, Implies(has, And(Lt(Int(0), b), Eq(ifaceTag(b), tagOf(et)), Eq(App(unboxName(et, ""), SInt, b), v), Lt(Int(0), v), Le(v, st.wm))))
		g.assume(st, Implies(Not(has), Eq(b, Int(0))))
		for _, fn := range d.NonNil {
			if ft := g.fieldTerm(st, et, v, fn); ft != nil {
				g.assume(st, Implies(has, Neq(ft, Int(0))))
			}
		}
		if res != nil {
			g.set(res, &Val{T: rt, L: []*Term{b, has}})
		}
		return true
	case "Store":
		key := g.unboxKey(st, args[1], d)
		box := args[2].L[0]
		g.oblige(st, "syncmap", lbl, And(Neq(box, Int(0)), Eq(ifaceTag(box), tagOf(et)), Neq(App(unboxName(et, ""), SInt, box), Int(0))), "value stored in "+d.Field+" must be a non-nil "+d.Elem)
		for _, fn := range d.NonNil {
			if ft := g.fieldTerm(st, et, App(unboxName(et, ""), SInt, box), fn); ft != nil {
				g.oblige(st, "syncmap", lbl+":"+fn, Neq(ft, Int(0)), "entries of "+d.Field+" have a non-nil "+fn)
			}
		}
		g.effect(st, "sync.Map.Store", nil)
		g.recordWrite2(hk, SBool, ks)
		g.recordWrite2(vk, SInt, ks)
		st.heap = st.heap.With(hk, st.heap.Get(hk, SBool, ks).Store(m, key, True))
		st.heap = st.heap.With(vk, st.heap.Get(vk, SInt, ks).Store(m, key, App(unboxName(et, ""), SInt, box)))
		return true
	case "Delete":
		key := g.unboxKey(st, args[1], d)
		g.effect(st, "sync.Map.Delete", nil)
		g.recordWrite2(hk, SBool, ks)
		st.heap = st.heap.With(hk, st.heap.Get(hk, SBool, ks).Store(m, key, False))
		return true
	}
	return false
}

// fieldTerm reads pointer-typed field fname of the struct that ref (of pointer type pt) points to.
func (g *gen) fieldTerm(st *State, pt types.Type, ref *Term, fname string) *Term {
	p, ok := pt.Underlying().(*types.Pointer)
	if !ok {
		return nil
	}
	stt, ok := p.Elem().Underlying().(*types.Struct)
	if !ok {
		return nil
	}
	for i := 0; i < stt.NumFields(); i++ {
		f := stt.Field(i)
		if f.Name() != fname {
			continue
		}
		ls := leavesOf(f.Type())
		if len(ls) != 1 || ls[0].Sort() != SInt {
			return nil
		}
		a := &AddrInfo{Root: p.Elem(), Path: fname, Known: true}
		k := g.leafKeyL(a, ls[0])
		return st.heap.Get(k, SInt, SInt).Read(ref, nil)
	}
	return nil
}
