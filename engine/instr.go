package main

import (
	"regexp"
	"fmt"
	"go/token"
	"go/types"
	"math/big"
	"strings"

	"golang.org/x/tools/go/ssa"
)

var typeTags = map[string]int64{}

func tagOf(t types.Type) *Term {
	k := typeKey(t)
	if n, ok := typeTags[k]; ok {
		return Int(n)
	}
	n := int64(len(typeTags) + 1)
	typeTags[k] = n
	return Int(n)
}

func ifaceTag(box *Term) *Term { return App("iface.tag", SInt, box) }

func unboxName(t types.Type, path string) string {
	return "unbox." + sanitize(typeKey(t)) + "." + sanitize(path)
}

func (g *gen) makeIface(st *State, v *Val, it types.Type) *Val {
	if isInterface(v.T) {
		return &Val{T: it, L: v.L}
	}
	b := Fresh("box", SInt)
	g.boxed[b.id] = v
	g.assumeGlobal(Lt(Int(0), b))
	g.assumeGlobal(Eq(ifaceTag(b), tagOf(v.T)))
	for i, l := range leavesOf(v.T) {
		if i < len(v.L) {
			g.assumeGlobal(Eq(App(unboxName(v.T, l.Path), l.Sort(), b), v.L[i]))
		}
	}
	return scalar(it, b)
}

func (g *gen) unbox(st *State, box *Term, t types.Type) *Val {
	ls := leavesOf(t)
	v := &Val{T: t, L: make([]*Term, len(ls))}
	for i, l := range ls {
		v.L[i] = App(unboxName(t, l.Path), l.Sort(), box)
	}
	if p, ok := t.Underlying().(*types.Pointer); ok {
		v.Addr = &AddrInfo{Root: p.Elem(), Known: true}
	}
	return v
}

func (g *gen) execBlock(b *ssa.BasicBlock, st *State, cur *loopInfo) {
	g.curBlk = b
	// source-level variable bindings and latest call results are inherited
	// from the immediate dominator, so that a name always denotes a value
	// that is defined on every path to this block
	g.varAt = map[string]ssa.Value{}
	g.lastCall = map[string]*Val{}
	g.lastArgs = map[string][]*Val{}
	if d := b.Idom(); d != nil {
		for k, v := range g.lastArgsBlock[d] {
			g.lastArgs[k] = v
		}
		for k, v := range g.varAtBlock[d] {
			g.varAt[k] = v
		}
		for k, v := range g.lastCallBlock[d] {
			g.lastCall[k] = v
		}
	}
	defer func() {
		g.varAtBlock[b] = g.varAt
		g.lastCallBlock[b] = g.lastCall
		g.lastArgsBlock[b] = g.lastArgs
		g.curBlk = nil
	}()
	for _, ins := range b.Instrs {
		g.curInstr = ins
		if st.reach.IsFalse() {
			// still bind values so later uses do not see undefined ones
			if v, ok := ins.(ssa.Value); ok {
				if _, isPhi := ins.(*ssa.Phi); !isPhi {
					g.set(v, freshVal(v.Type(), "dead"))
				}
			}
			continue
		}
		g.execInstr(ins, st, b)
	}
	g.curInstr = nil
}

func (g *gen) lbl(pos token.Pos, want string, fallback string) string {
	s := g.srcText(pos, want)
	if s == "" {
		s = fallback
	}
	return shorten(s)
}

func (g *gen) execInstr(ins ssa.Instruction, st *State, b *ssa.BasicBlock) {
	switch x := ins.(type) {
	case *ssa.Phi:
		// bound by mergeEdges. A phi of a lifted local carries the variable's name:
		// from here on that name means the merged value (there is no DebugRef for it)
		if x.Comment != "" && x.Comment != "rangeindex" && x.Comment != "rangeiter" {
			if _, cell := g.varAt["&"+x.Comment]; !cell {
				g.varAt[x.Comment] = x
				if g.varAll[x.Comment] == nil {
					g.varAll[x.Comment] = map[ssa.Value]bool{}
				}
				g.varAll[x.Comment][x] = true
			}
		}
	case *ssa.DebugRef:
		// keep the latest binding of source-level variables for invariants
		if id, ok := x.Expr.(interface{ String() string }); ok && !x.IsAddr {
			_ = id
		}
		// only variables: a DebugRef is also emitted for the field identifier of a
		// selector expression, which must not shadow a local of the same name
		if vo, isVar := x.Object().(*types.Var); x.Object() != nil && (!isVar || vo.IsField()) {
			break
		}
		// a variable that lives in a cell (address-taken or escaping local): every
		// mention, by value or by address, denotes the cell; its current content
		// is read when a contract names the variable
		if x.Object() != nil {
			if al, ok := g.cellOf[x.Object().Pos()]; ok {
				g.varAt["&"+x.Object().Name()] = al
				delete(g.varAt, x.Object().Name())
				break
			}
		}
		if x.Object() != nil && !x.IsAddr {
			v := x.X
			// an identifier used where an interface is expected is recorded after
			// its implicit conversion: look through it
			if mi, ok := v.(*ssa.MakeInterface); ok && !isInterface(x.Object().Type()) {
				v = mi.X
			}
			if types.Identical(v.Type(), x.Object().Type()) || !isInterface(v.Type()) {
				g.varAt[x.Object().Name()] = v
				if g.varAll[x.Object().Name()] == nil {
					g.varAll[x.Object().Name()] = map[ssa.Value]bool{}
				}
				g.varAll[x.Object().Name()][v] = true
			}
		} else if x.Object() != nil && x.IsAddr {
			// address-taken local: remember its cell; contracts read the cell's current content
			g.varAt["&"+x.Object().Name()] = x.X
		}
	case *ssa.Alloc:
		et := x.Type().(*types.Pointer).Elem()
		r := g.alloc(st, "alloc."+x.Name())
		g.zeroObject(st, r, et)
		if g.dry == 0 && isPrivateCell(x) {
			g.privCells = append(g.privCells, privCell{ref: r, t: et})
		}
		if x.Pos().IsValid() && x.Comment != "" && x.Comment != "complit" && x.Comment != "varargs" && x.Comment != "new" && x.Comment != "slicelit" && x.Comment != "makeslice" {
			if g.cellOf == nil {
				g.cellOf = map[token.Pos]*ssa.Alloc{}
			}
			g.cellOf[x.Pos()] = x
			if regexp.MustCompile(`^[A-Za-z_][A-Za-z0-9_]*$`).MatchString(x.Comment) {
				g.varAt["&"+x.Comment] = x
				delete(g.varAt, x.Comment)
			}
		}
		pv := &Val{T: x.Type(), L: []*Term{r}, Addr: &AddrInfo{Root: et, Known: true}}
		if _, isArr := et.Underlying().(*types.Array); isArr {
			pv.Addr = &AddrInfo{Root: et, Known: true} // array object; IndexAddr turns it into element addresses
		}
		g.set(x, pv)
	case *ssa.BinOp:
		g.set(x, g.binop(st, x))
	case *ssa.UnOp:
		g.set(x, g.unop(st, x))
	case *ssa.ChangeType:
		v := g.val(x.X)
		g.set(x, &Val{T: x.Type(), L: v.L, Addr: v.Addr})
	case *ssa.ChangeInterface:
		v := g.val(x.X)
		g.set(x, &Val{T: x.Type(), L: v.L})
	case *ssa.Convert:
		g.set(x, g.convert(st, x))
	case *ssa.MultiConvert:
		g.note("MultiConvert: havoced")
		g.set(x, g.freshOf(x.Type(), x.Name()))
	case *ssa.MakeInterface:
		g.set(x, g.makeIface(st, g.val(x.X), x.Type()))
	case *ssa.MakeClosure:
		c := Fresh("closure", SInt)
		g.assumeGlobal(Lt(Int(0), c))
		v := scalar(x.Type(), c)
		var bs []*Val
		for _, bnd := range x.Bindings {
			bs = append(bs, g.val(bnd))
		}
		g.closures[c.id] = &closureInfo{fn: x.Fn.(*ssa.Function), bindings: bs}
		g.assumeGlobal(Eq(App("fnname", SStr, c), Str(strings.TrimSuffix(x.Fn.Name(), "$bound"))))
		g.set(x, v)
	case *ssa.MakeMap:
		r := g.alloc(st, "map."+x.Name())
		mt := x.Type().Underlying().(*types.Map)
		g.mapClear(st, r, mt)
		g.set(x, scalar(x.Type(), r))
	case *ssa.MakeChan:
		r := g.alloc(st, "chan."+x.Name())
		g.set(x, scalar(x.Type(), r))
	case *ssa.MakeSlice:
		ln := g.val(x.Len).L[0]
		cp := g.val(x.Cap).L[0]
		g.oblige(st, "safe:makeslice", g.lbl(x.Pos(), "call", x.String()), And(Le(Int(0), ln), Le(ln, cp)), "make: 0 <= len <= cap")
		r := g.alloc(st, "mk."+x.Name())
		et := x.Type().Underlying().(*types.Slice).Elem()
		g.fillElems(st, r, et)
		g.set(x, sliceVal(x.Type(), r, Int(0), ln, cp))
	case *ssa.FieldAddr:
		p := g.val(x.X)
		g.oblige(st, "safe:nil", g.lbl(x.Pos(), "selector", x.String()), Neq(p.L[0], Int(0)), "field access through nil pointer")
		st0 := x.X.Type().Underlying().(*types.Pointer).Elem()
		ft := st0.Underlying().(*types.Struct).Field(x.Field).Type()
		nv := &Val{T: types.NewPointer(ft), L: p.L}
		if p.Addr != nil && p.Addr.Known {
			a := *p.Addr
			a.Path = joinPath(a.Path, fieldPath(st0, x.Field))
			nv.Addr = &a
		} else {
			nv.Addr = &AddrInfo{Known: false}
		}
		g.set(x, nv)
	case *ssa.Field:
		g.set(x, fieldOf(g.val(x.X), x.Field))
	case *ssa.IndexAddr:
		g.set(x, g.indexAddr(st, x))
	case *ssa.Index:
		g.set(x, g.index(st, x))
	case *ssa.Slice:
		g.set(x, g.sliceOp(st, x))
	case *ssa.Lookup:
		g.set(x, g.lookup(st, x))
	case *ssa.MapUpdate:
		g.mapUpdate(st, x)
	case *ssa.Store:
		p := g.val(x.Addr)
		v := g.val(x.Val)
		et := x.Addr.Type().Underlying().(*types.Pointer).Elem()
		if _, isFA := x.Addr.(*ssa.FieldAddr); !isFA {
			if _, isIA := x.Addr.(*ssa.IndexAddr); !isIA {
				g.oblige(st, "safe:nil", g.lbl(x.Pos(), "", x.String()), Neq(p.L[0], Int(0)), "store through nil pointer")
			}
		}
		g.checkFrame(st, p, et, x.Pos())
		g.store(st, p, et, v)
	case *ssa.TypeAssert:
		g.set(x, g.typeAssert(st, x))
	case *ssa.Extract:
		t := g.val(x.Tuple)
		lo, hi, ft := fieldSlice(t.T, x.Index)
		r := &Val{T: ft, L: t.L[lo:hi]}
		if p, ok := ft.Underlying().(*types.Pointer); ok {
			r.Addr = &AddrInfo{Root: p.Elem(), Known: true}
			if t.Addr != nil && lo == 0 && hi == len(t.L) {
				r.Addr = t.Addr
			}
		}
		if ta, ok := g.tupleAddrs[x.Tuple]; ok && ta[x.Index] != nil {
			r.Addr = ta[x.Index]
		}
		g.set(x, r)
	case *ssa.Call:
		g.call(st, x, &x.Call, x)
	case *ssa.Go:
		g.goStmt(st, x)
	case *ssa.Defer:
		g.defers = append(g.defers, x)
		g.deferArgs[x] = g.snapshotArgs(&x.Call)
	case *ssa.RunDefers:
		g.runDefers(st)
	case *ssa.Range:
		g.set(x, scalar(x.Type(), Fresh("iter", SInt)))
		g.rangeOver[x] = g.val(x.X)
	case *ssa.Next:
		g.set(x, g.next(st, x))
	case *ssa.Send:
		g.note("channel send: no effect modelled")
		g.effect(st, "channel send", nil)
	case *ssa.Select:
		g.note("select: results havoced")
		g.set(x, g.freshOf(x.Type(), x.Name()))
	case *ssa.SliceToArrayPointer:
		g.note("SliceToArrayPointer: havoced")
		g.set(x, g.freshOf(x.Type(), x.Name()))
	case *ssa.Jump:
		g.addEdge(b, b.Succs[0], st)
	case *ssa.If:
		c := g.val(x.Cond).L[0]
		t := &State{reach: And(st.reach, c), heap: st.heap, wm: st.wm}
		f := &State{reach: And(st.reach, Not(c)), heap: st.heap, wm: st.wm}
		g.addEdge(b, b.Succs[0], t)
		g.addEdge(b, b.Succs[1], f)
	case *ssa.Return:
		var rs []*Val
		for _, r := range x.Results {
			rs = append(rs, g.val(r))
		}
		g.retStates = append(g.retStates, &retPoint{nAssume: len(g.assumes), blk: b, vars: g.varAt, st: &State{reach: st.reach, heap: st.heap, wm: st.wm}, results: rs, pos: x.Pos()})
	case *ssa.Panic:
		g.oblige(st, "safe:panic", g.lbl(x.Pos(), "call", "panic"), False, "explicit panic reachable")
	default:
		g.note("unsupported instruction %T: havoced", ins)
		if v, ok := ins.(ssa.Value); ok {
			g.set(v, g.freshOf(v.Type(), v.Name()))
		}
	}
}

func (g *gen) freshOf(t types.Type, hint string) *Val {
	v := freshVal(t, hint)
	g.assumeGlobal(rangeFacts(v))
	return v
}

// freshIn is freshOf plus "references are below the current watermark".
func (g *gen) freshIn(st *State, t types.Type, hint string) *Val {
	v := g.freshOf(t, hint)
	for i, l := range leavesOf(t) {
		if (l.Kind == LKRef || l.Kind == LKSliceArr) && i < len(v.L) {
			g.assumeGlobal(Le(v.L[i], st.wm))
		}
	}
	return v
}

// ---------------------------------------------------------------- arithmetic

func goDiv(a, b *Term) *Term {
	// truncated division for any signs
	if a.IsLit() && b.IsLit() && b.I.Sign() != 0 {
		return IntBig(new(big.Int).Quo(a.I, b.I))
	}
	pos := And(Le(Int(0), a))
	q := Div(a, b)
	// SMT div is floor for positive divisor, ceil for negative; Go truncates.
	// a>=0: SMT div == trunc (for b>0 floor=trunc; for b<0, a/b<=0 and SMT div rounds so that remainder >=0 -> trunc). a<0: trunc = -( (-a) div b )
	return Ite(pos, q, Neg(Div(Neg(a), b)))
}

func goRem(a, b *Term) *Term {
	if a.IsLit() && b.IsLit() && b.I.Sign() != 0 {
		return IntBig(new(big.Int).Rem(a.I, b.I))
	}
	return Sub(a, Mul(goDiv(a, b), b))
}

func litInt(t *Term) (*big.Int, bool) {
	if t.IsLit() && t.Sort == SInt {
		return t.I, true
	}
	return nil, false
}

func isPow2Minus1(x *big.Int) (uint, bool) {
	y := new(big.Int).Add(x, big.NewInt(1))
	if y.Sign() > 0 && new(big.Int).And(y, x).Sign() == 0 {
		return uint(y.BitLen() - 1), true
	}
	return 0, false
}

// bitBound: a syntactic upper bound (in bits) of a non-negative term.
func bitBound(t *Term) (uint, bool) {
	switch t.Op {
	case "lit":
		if t.Sort == SInt && t.I.Sign() >= 0 {
			return uint(t.I.BitLen()), true
		}
	case "mod":
		if l, ok := litInt(t.Args[1]); ok && l.Sign() > 0 {
			if new(big.Int).And(l, new(big.Int).Sub(l, big.NewInt(1))).Sign() == 0 {
				return uint(l.BitLen() - 1), true
			}
		}
	case "*":
		if l, ok := litInt(t.Args[1]); ok && l.Sign() > 0 && new(big.Int).And(l, new(big.Int).Sub(l, big.NewInt(1))).Sign() == 0 {
			if b, ok := bitBound(t.Args[0]); ok {
				return b + uint(l.BitLen()-1), true
			}
		}
	case "+":
		b1, ok1 := bitBound(t.Args[0])
		b2, ok2 := bitBound(t.Args[1])
		if ok1 && ok2 {
			if b1 < b2 {
				b1 = b2
			}
			return b1 + 1, true
		}
	case "-":
		// wrapInt of a signed type: ((x + h) mod 2^n) - h : no bound
	case "ite":
		b1, ok1 := bitBound(t.Args[1])
		b2, ok2 := bitBound(t.Args[2])
		if ok1 && ok2 {
			if b1 > b2 {
				return b1, true
			}
			return b2, true
		}
	}
	return 0, false
}

func (g *gen) bitop(op string, a, b *Term, t types.Type) *Term {
	if la, ok := litInt(a); ok {
		if lb, ok2 := litInt(b); ok2 && la.Sign() >= 0 && lb.Sign() >= 0 {
			switch op {
			case "and":
				return IntBig(new(big.Int).And(la, lb))
			case "or":
				return IntBig(new(big.Int).Or(la, lb))
			case "xor":
				return IntBig(new(big.Int).Xor(la, lb))
			}
		}
	}
	if op == "and" {
		for _, pr := range [][2]*Term{{a, b}, {b, a}} {
			if l, ok := litInt(pr[1]); ok && l.Sign() >= 0 {
				if n, ok := isPow2Minus1(l); ok {
					// x & (2^n - 1) is x mod 2^n in two's complement, for either sign
					return Mod(pr[0], Pow2(n))
				}
				if l.Sign() == 0 {
					return Int(0)
				}
			}
		}
	}
	if op == "or" {
		// exact when the operands occupy disjoint bit ranges: a | b = a + b if
		// 0 <= b < 2^s and a is a non-negative multiple of 2^s (either order);
		// s is a syntactic bit bound of one operand, the solver checks the condition
		r := App("bit.or", SInt, a, b)
		res := r
		for _, pr := range [][2]*Term{{a, b}, {b, a}} {
			if s, ok := bitBound(pr[1]); ok && s < 63 {
				cond := And(Le(Int(0), pr[1]), Lt(pr[1], Pow2(s)), Le(Int(0), pr[0]), Eq(Mod(pr[0], Pow2(s)), Int(0)))
				res = Ite(cond, Add(pr[0], pr[1]), res)
			}
		}
		if res != r {
			if lo, hi, ok := intRange(t); ok {
				g.assumeGlobal(And(Le(IntBig(lo), r), Le(r, IntBig(hi))))
			}
			return res
		}
	}
	r := App("bit."+op, SInt, a, b)
	if isUnsigned(t) {
		switch op {
		case "and":
			g.assumeGlobal(And(Le(Int(0), r), Le(r, a), Le(r, b)))
		case "or":
			g.assumeGlobal(And(Le(a, r), Le(b, r), Le(r, Add(a, b))))
		case "xor":
			g.assumeGlobal(And(Le(Int(0), r), Le(r, Add(a, b))))
		}
	} else {
		lo, hi, ok := intRange(t)
		if ok {
			g.assumeGlobal(And(Le(IntBig(lo), r), Le(r, IntBig(hi))))
		}
	}
	return r
}

func (g *gen) binop(st *State, x *ssa.BinOp) *Val {
	a, b := g.val(x.X), g.val(x.Y)
	t := x.X.Type()
	rt := x.Type()
	switch x.Op {
	case token.EQL, token.NEQ:
		eq := g.equalVals(a, b, t)
		if x.Op == token.NEQ {
			eq = Not(eq)
		}
		return scalar(rt, eq)
	}
	if isString(t) {
		switch x.Op {
		case token.ADD:
			return scalar(rt, StrCat(a.L[0], b.L[0]))
		case token.LSS:
			return scalar(rt, mk("str.<", SBool, a.L[0], b.L[0]))
		case token.LEQ:
			return scalar(rt, mk("str.<=", SBool, a.L[0], b.L[0]))
		case token.GTR:
			return scalar(rt, mk("str.<", SBool, b.L[0], a.L[0]))
		case token.GEQ:
			return scalar(rt, mk("str.<=", SBool, b.L[0], a.L[0]))
		}
	}
	if isBoolean(t) {
		switch x.Op {
		case token.AND, token.LAND:
			return scalar(rt, And(a.L[0], b.L[0]))
		case token.OR, token.LOR:
			return scalar(rt, Or(a.L[0], b.L[0]))
		}
	}
	if !isInteger(t) {
		// floats etc.
		switch x.Op {
		case token.LSS, token.LEQ, token.GTR, token.GEQ:
			return scalar(rt, App("float."+sanitize(x.Op.String()), SBool, a.L[0], b.L[0]))
		}
		return scalar(rt, App("float."+sanitize(x.Op.String()), SInt, a.L[0], b.L[0]))
	}
	A, B := a.L[0], b.L[0]
	switch x.Op {
	case token.ADD:
		return scalar(rt, g.arith(st, x, Add(A, B), rt))
	case token.SUB:
		return scalar(rt, g.arith(st, x, Sub(A, B), rt))
	case token.MUL:
		return scalar(rt, g.arith(st, x, Mul(A, B), rt))
	case token.QUO:
		g.oblige(st, "safe:div", g.lbl(x.Pos(), "binary", x.String()), Neq(B, Int(0)), "integer division by zero")
		return scalar(rt, wrapInt(goDiv(A, B), rt))
	case token.REM:
		g.oblige(st, "safe:div", g.lbl(x.Pos(), "binary", x.String()), Neq(B, Int(0)), "integer modulo by zero")
		return scalar(rt, goRem(A, B))
	case token.LSS:
		return scalar(rt, Lt(A, B))
	case token.LEQ:
		return scalar(rt, Le(A, B))
	case token.GTR:
		return scalar(rt, Gt(A, B))
	case token.GEQ:
		return scalar(rt, Ge(A, B))
	case token.AND:
		return scalar(rt, g.bitop("and", A, B, rt))
	case token.OR:
		return scalar(rt, g.bitop("or", A, B, rt))
	case token.XOR:
		return scalar(rt, g.bitop("xor", A, B, rt))
	case token.AND_NOT:
		return scalar(rt, g.bitop("andnot", A, B, rt))
	case token.SHL:
		if l, ok := litInt(B); ok && l.IsInt64() && l.Int64() >= 0 && l.Int64() < 128 {
			return scalar(rt, wrapInt(Mul(A, Pow2(uint(l.Int64()))), rt))
		}
		r := App("bit.shl", SInt, A, B)
		if lo, hi, ok := intRange(rt); ok {
			g.assumeGlobal(And(Le(IntBig(lo), r), Le(r, IntBig(hi))))
		}
		return scalar(rt, r)
	case token.SHR:
		if l, ok := litInt(B); ok && l.IsInt64() && l.Int64() >= 0 && l.Int64() < 128 {
			// arithmetic shift = floor division, which is SMT div for positive divisor
			return scalar(rt, Div(A, Pow2(uint(l.Int64()))))
		}
		r := App("bit.shr", SInt, A, B)
		if lo, hi, ok := intRange(rt); ok {
			g.assumeGlobal(And(Le(IntBig(lo), r), Le(r, IntBig(hi))))
		}
		return scalar(rt, r)
	}
	g.note("unsupported binop %s", x.Op)
	return g.freshOf(rt, x.Name())
}

// arith applies Go's wrap-around for sized types; for int/int64 the result is
// kept mathematical and, in functions under a functional contract, an
// overflow obligation is emitted.
func (g *gen) arith(st *State, x *ssa.BinOp, r *Term, t types.Type) *Term {
	if intBits(t) == 64 && !isUnsigned(t) {
		if g.eng.overflowChecks && !g.sweep {
			lo, hi, _ := intRange(t)
			g.oblige(st, "safe:overflow", g.lbl(x.Pos(), "binary", x.String()), And(Le(IntBig(lo), r), Le(r, IntBig(hi))), "int arithmetic stays in 64 bits")
		}
		return r
	}
	return wrapInt(r, t)
}

func (g *gen) equalVals(a, b *Val, t types.Type) *Term {
	if isInterface(t) {
		if isNilConst(a) || isNilConst(b) {
			return Eq(a.L[0], b.L[0])
		}
		e := App("iface.eq", SBool, a.L[0], b.L[0])
		// one side is a value of a basic type boxed here: interfaces are equal
		// iff the other side has that dynamic type and holds an equal value
		for _, pr := range [][2]*Val{{a, b}, {b, a}} {
			x, y := pr[0], pr[1]
			if bv, ok := g.boxed[y.L[0].id]; ok && len(bv.L) == 1 {
				if bt, basic := bv.T.Underlying().(*types.Basic); basic && bt.Info()&(types.IsFloat|types.IsComplex) == 0 {
					ls := leavesOf(bv.T)
					if len(ls) == 1 {
						rhs := And(Neq(x.L[0], Int(0)), Eq(ifaceTag(x.L[0]), tagOf(bv.T)), Eq(App(unboxName(bv.T, ls[0].Path), ls[0].Sort(), x.L[0]), bv.L[0]))
						g.assumeGlobal(And(Implies(e, rhs), Implies(rhs, e)))
					}
				}
			}
		}
		g.assumeGlobal(Implies(Eq(a.L[0], b.L[0]), e))
		// equal interfaces have equal tags
		g.assumeGlobal(Implies(e, Eq(ifaceTag(a.L[0]), ifaceTag(b.L[0]))))
		return e
	}
	if len(a.L) != len(b.L) {
		g.note("comparison of values with different shapes")
		return Fresh("cmp", SBool)
	}
	if isSlice(t) && isSlice(a.T) && isSlice(b.T) {
		// slices compare only against nil: the nil slice is the one without
		// a backing array (the same reading as `s == nil` in contracts)
		return Eq(a.Arr(), b.Arr())
	}
	var fs []*Term
	for i := range a.L {
		if a.L[i].Sort != b.L[i].Sort {
			return Fresh("cmp", SBool)
		}
		fs = append(fs, Eq(a.L[i], b.L[i]))
	}
	if (a.Addr != nil && a.Addr.Known && a.Addr.Elem) || (b.Addr != nil && b.Addr.Known && b.Addr.Elem) {
		if a.Addr != nil && b.Addr != nil && a.Addr.Elem && b.Addr.Elem {
			fs = append(fs, Eq(a.Addr.Idx, b.Addr.Idx))
		}
	}
	return And(fs...)
}

func (g *gen) unop(st *State, x *ssa.UnOp) *Val {
	v := g.val(x.X)
	switch x.Op {
	case token.NOT:
		return scalar(x.Type(), Not(v.L[0]))
	case token.SUB:
		if isInteger(x.Type()) {
			return scalar(x.Type(), wrapInt(Neg(v.L[0]), x.Type()))
		}
		return scalar(x.Type(), App("float.neg", SInt, v.L[0]))
	case token.XOR:
		if isUnsigned(x.Type()) {
			return scalar(x.Type(), Sub(Sub(Pow2(intBits(x.Type())), Int(1)), v.L[0]))
		}
		return scalar(x.Type(), Sub(Neg(v.L[0]), Int(1)))
	case token.MUL:
		// nil check unless the address is a FieldAddr/IndexAddr (checked there) or an Alloc/Global
		switch x.X.(type) {
		case *ssa.FieldAddr, *ssa.IndexAddr, *ssa.Alloc, *ssa.Global:
		default:
			g.oblige(st, "safe:nil", g.lbl(x.Pos(), "", x.String()), Neq(v.L[0], Int(0)), "load through nil pointer")
		}
		r := g.load(st, v, x.Type())
		if gl, ok := x.X.(*ssa.Global); ok && isPointer(x.Type()) && len(r.L) == 1 && g.eng.initOnlyNonNil(gl) {
			// written once, by the package initialiser, with &fresh object
			g.eng.useAssumption("package initialisation completed before the call (init-only global " + gl.RelString(nil) + " is non-nil)")
			g.assume(st, Neq(r.L[0], Int(0)))
		}
		return r
	case token.ARROW:
		g.note("channel receive: value havoced, blocking not modelled")
		return g.freshIn(st, x.Type(), x.Name())
	}
	g.note("unsupported unop %s", x.Op)
	return g.freshOf(x.Type(), x.Name())
}

func (g *gen) convert(st *State, x *ssa.Convert) *Val {
	v := g.val(x.X)
	from, to := x.X.Type(), x.Type()
	switch {
	case isInteger(from) && isInteger(to):
		a := v.L[0]
		if intBits(to) == 64 && !isUnsigned(to) {
			// to int/int64
			if isUnsigned(from) && intBits(from) == 64 {
				return scalar(to, Ite(Le(Pow2(63), a), Sub(a, Pow2(64)), a))
			}
			return scalar(to, a)
		}
		return scalar(to, wrapInt(a, to))
	case isString(from) && isSlice(to):
		r := g.alloc(st, "s2b")
		et := to.Underlying().(*types.Slice).Elem()
		g.havocElems(st, r, et, "s2b")
		if !isByteType(et) {
			// []rune(s): one element per code point, between len(s)/4 (rounded up) and len(s)
			ln := Fresh("s2r.len", SInt)
			g.assumeGlobal(And(Le(Int(0), ln), Le(ln, StrLen(v.L[0])), Le(StrLen(v.L[0]), Mul(Int(4), ln))))
			return sliceVal(to, r, Int(0), ln, ln)
		}
		ln := StrLen(v.L[0])
		sv := sliceVal(to, r, Int(0), ln, ln)
		g.str2bytes[r.id] = v.L[0]
		return sv
	case isSlice(from) && isString(to):
		s := Fresh("b2s", SStr)
		if !isByteType(from.Underlying().(*types.Slice).Elem()) {
			// string([]rune): every element becomes 1 to 4 bytes
			g.assumeGlobal(And(Le(v.Len(), StrLen(s)), Le(StrLen(s), Mul(Int(4), v.Len()))))
			return scalar(to, s)
		}
		g.assumeGlobal(Eq(StrLen(s), v.Len()))
		if g.bytes2str == nil {
			g.bytes2str = map[int]*Val{}
		}
		g.bytes2str[s.id] = v
		if src, ok := g.str2bytes[v.Arr().id]; ok && v.Off().IsLit() && v.Off().I.Sign() == 0 {
			_ = src
		}
		return scalar(to, s)
	case isInteger(from) && isString(to):
		s := Fresh("r2s", SStr)
		g.assumeGlobal(And(Le(Int(1), StrLen(s)), Le(StrLen(s), Int(4))))
		return scalar(to, s)
	case isString(from) && isString(to):
		return scalar(to, v.L[0])
	}
	if len(leavesOf(from)) == len(leavesOf(to)) && isPointer(from) == isPointer(to) {
		if b1, ok := from.Underlying().(*types.Basic); ok {
			if b2, ok2 := to.Underlying().(*types.Basic); ok2 && (b1.Info()&types.IsFloat != 0 || b2.Info()&types.IsFloat != 0) {
				r := App("conv."+sanitize(typeKey(from))+"."+sanitize(typeKey(to)), SInt, v.L[0])
				if lo, hi, ok := intRange(to); ok {
					g.assumeGlobal(And(Le(IntBig(lo), r), Le(r, IntBig(hi))))
				}
				return scalar(to, r)
			}
		}
		return &Val{T: to, L: v.L, Addr: v.Addr}
	}
	g.note("unsupported conversion %s -> %s", typeKey(from), typeKey(to))
	return g.freshIn(st, to, x.Name())
}

// ---------------------------------------------------------------- indexing

func (g *gen) indexAddr(st *State, x *ssa.IndexAddr) *Val {
	base := g.val(x.X)
	i := g.val(x.Index).L[0]
	lbl := g.lbl(x.Pos(), "index", x.String())
	switch u := x.X.Type().Underlying().(type) {
	case *types.Slice:
		g.oblige(st, "safe:index", lbl, And(Le(Int(0), i), Lt(i, base.Len())), "slice index in range")
		return elemAddr(base, i)
	case *types.Pointer:
		arr := u.Elem().Underlying().(*types.Array)
		g.oblige(st, "safe:nil", lbl, Neq(base.L[0], Int(0)), "index through nil array pointer")
		g.oblige(st, "safe:index", lbl, And(Le(Int(0), i), Lt(i, Int(arr.Len()))), "array index in range")
		if base.Addr != nil && base.Addr.Known && base.Addr.Path == "" && !base.Addr.Elem {
			return &Val{T: types.NewPointer(arr.Elem()), L: base.L, Addr: &AddrInfo{Root: arr.Elem(), Elem: true, Idx: i, Known: true}}
		}
		g.note("index through interior array pointer: unknown shape")
		return &Val{T: types.NewPointer(arr.Elem()), L: base.L, Addr: &AddrInfo{Known: false}}
	}
	g.note("IndexAddr on %s", typeKey(x.X.Type()))
	return &Val{T: x.Type(), L: []*Term{Fresh("ia", SInt)}, Addr: &AddrInfo{Known: false}}
}

func (g *gen) index(st *State, x *ssa.Index) *Val {
	base := g.val(x.X)
	i := g.val(x.Index).L[0]
	lbl := g.lbl(x.Pos(), "index", x.String())
	switch u := x.X.Type().Underlying().(type) {
	case *types.Basic: // string
		g.oblige(st, "safe:index", lbl, And(Le(Int(0), i), Lt(i, StrLen(base.L[0]))), "string index in range")
		return g.strByte(base.L[0], i, x.Type())
	case *types.Array:
		g.oblige(st, "safe:index", lbl, And(Le(Int(0), i), Lt(i, Int(u.Len()))), "array index in range")
		n := len(leavesOf(u.Elem()))
		if u.Len() <= 8 && len(base.L) == n*int(u.Len()) {
			// select by ite chain
			var cur *Val
			for k := int64(u.Len()) - 1; k >= 0; k-- {
				ev := &Val{T: u.Elem(), L: base.L[int(k)*n : int(k+1)*n]}
				if cur == nil {
					cur = ev
				} else {
					cur = iteVal(Eq(i, Int(k)), ev, cur)
				}
			}
			if cur != nil {
				return cur
			}
		}
	}
	return g.freshIn(st, x.Type(), x.Name())
}

func (g *gen) strByte(s, i *Term, t types.Type) *Val {
	r := mk("str.to_code", SInt, mk("str.at", SStr, s, i))
	g.assumeGlobal(Implies(And(Le(Int(0), i), Lt(i, StrLen(s))), And(Le(Int(0), r), Le(r, Int(255)))))
	return scalar(t, r)
}

func (g *gen) sliceOp(st *State, x *ssa.Slice) *Val {
	base := g.val(x.X)
	lbl := g.lbl(x.Pos(), "slice", x.String())
	var lo, hi, mx *Term
	if x.Low != nil {
		lo = g.val(x.Low).L[0]
	} else {
		lo = Int(0)
	}
	switch u := x.X.Type().Underlying().(type) {
	case *types.Slice:
		if x.High != nil {
			hi = g.val(x.High).L[0]
		} else {
			hi = base.Len()
		}
		if x.Max != nil {
			mx = g.val(x.Max).L[0]
		} else {
			mx = base.Cap()
		}
		g.oblige(st, "safe:slice", lbl, And(Le(Int(0), lo), Le(lo, hi), Le(hi, mx), Le(mx, base.Cap())), "slice bounds in range")
		return sliceVal(x.Type(), base.Arr(), Add(base.Off(), lo), Sub(hi, lo), Sub(mx, lo))
	case *types.Basic: // string
		s := base.L[0]
		if x.High != nil {
			hi = g.val(x.High).L[0]
		} else {
			hi = StrLen(s)
		}
		g.oblige(st, "safe:slice", lbl, And(Le(Int(0), lo), Le(lo, hi), Le(hi, StrLen(s))), "string slice bounds in range")
		return scalar(x.Type(), mk("str.substr", SStr, s, lo, Sub(hi, lo)))
	case *types.Pointer:
		arr := u.Elem().Underlying().(*types.Array)
		n := Int(arr.Len())
		if x.High != nil {
			hi = g.val(x.High).L[0]
		} else {
			hi = n
		}
		if x.Max != nil {
			mx = g.val(x.Max).L[0]
		} else {
			mx = n
		}
		g.oblige(st, "safe:nil", lbl, Neq(base.L[0], Int(0)), "slice of nil array pointer")
		g.oblige(st, "safe:slice", lbl, And(Le(Int(0), lo), Le(lo, hi), Le(hi, mx), Le(mx, n)), "slice bounds in range")
		if base.Addr == nil || !base.Addr.Known || base.Addr.Path != "" || base.Addr.Elem {
			g.note("slice of interior array: havoced")
			return g.freshIn(st, x.Type(), x.Name())
		}
		return sliceVal(x.Type(), base.L[0], lo, Sub(hi, lo), Sub(mx, lo))
	}
	return g.freshIn(st, x.Type(), x.Name())
}

// ---------------------------------------------------------------- maps

func mapKeySort(mt *types.Map) (Sort, bool) {
	k := mt.Key()
	switch {
	case isString(k):
		return SStr, true
	case isInteger(k), isPointer(k), isInterface(k):
		return SInt, true
	case isBoolean(k):
		return SBool, false
	}
	return SInt, false
}

func mapLeafKey(mt *types.Map, path string) LeafKey {
	return LeafKey{Type: "map:" + typeKey(mt), Path: path, Elem: true}
}

func mapLeafKeyL(mt *types.Map, l Leaf) LeafKey {
	k := mapLeafKey(mt, "val."+l.Path)
	if _, ok := leafFactsReg[k]; !ok {
		if f, ok := factsOf(l); ok {
			leafFactsReg[k] = f
		}
	}
	return k
}

func (g *gen) mapClear(st *State, r *Term, mt *types.Map) {
	ks, ok := mapKeySort(mt)
	if !ok {
		return
	}
	k := mapLeafKey(mt, "has")
	hv := st.heap.Get(k, SBool, ks)
	st.heap = st.heap.With(k, hv.Fill(r, False))
}

func (g *gen) mapRead(st *State, m *Term, mt *types.Map, key *Term) (has *Term, val *Val) {
	ks, ok := mapKeySort(mt)
	vt := mt.Elem()
	if !ok {
		return Fresh("has", SBool), g.freshIn(st, vt, "mapval")
	}
	has = st.heap.Get(mapLeafKey(mt, "has"), SBool, ks).Read(m, key)
	// nil map has no entries
	has = And(Neq(m, Int(0)), has)
	ls := leavesOf(vt)
	v := &Val{T: vt, L: make([]*Term, len(ls))}
	for i, l := range ls {
		if l.Kind == LKOpaque {
			v.L[i] = Fresh("opaque", SInt)
			continue
		}
		v.L[i] = st.heap.Get(mapLeafKeyL(mt, l), l.Sort(), ks).Read(m, key)
	}
	if p, ok := vt.Underlying().(*types.Pointer); ok {
		v.Addr = &AddrInfo{Root: p.Elem(), Known: true}
	}
	// type facts of what was read; inside a contract quantifier the key may
	// mention the bound variable, so the facts go where the evaluator collects them
	fact := func(f *Term) {
		if g.factCapture != nil {
			*g.factCapture = append(*g.factCapture, f)
		} else {
			g.assume(st, f)
		}
	}
	fact(Implies(has, rangeFacts(v)))
	for i, l := range ls {
		if l.Kind == LKRef || l.Kind == LKSliceArr {
			fact(Implies(has, Le(v.L[i], st.wm)))
		}
	}
	return has, v
}

func (g *gen) lookup(st *State, x *ssa.Lookup) *Val {
	base := g.val(x.X)
	if mt, ok := x.X.Type().Underlying().(*types.Map); ok {
		kv := g.val(x.Index)
		if isInterface(mt.Key()) && !isInterface(kv.T) {
			kv = g.makeIface(st, kv, mt.Key())
		}
		has, v := g.mapRead(st, base.L[0], mt, kv.L[0])
		z := zeroVal(mt.Elem())
		res := iteVal(has, v, z)
		if x.CommaOk {
			tv := &Val{T: x.Type(), L: append(append([]*Term{}, res.L...), has)}
			if res.Addr != nil {
				g.tupleAddrs[x] = map[int]*AddrInfo{0: res.Addr}
			}
			return tv
		}
		return res
	}
	// string index
	i := g.val(x.Index).L[0]
	g.oblige(st, "safe:index", g.lbl(x.Pos(), "index", x.String()), And(Le(Int(0), i), Lt(i, StrLen(base.L[0]))), "string index in range")
	return g.strByte(base.L[0], i, x.Type())
}

func (g *gen) mapUpdate(st *State, x *ssa.MapUpdate) {
	m := g.val(x.Map)
	mt := x.Map.Type().Underlying().(*types.Map)
	g.oblige(st, "safe:mapnil", g.lbl(x.Pos(), "index", x.String()), Neq(m.L[0], Int(0)), "assignment to entry in nil map")
	ks, ok := mapKeySort(mt)
	if !ok {
		g.note("map with unsupported key type %s: update ignored (reads are havoced)", typeKey(mt.Key()))
		return
	}
	kv := g.val(x.Key)
	if isInterface(mt.Key()) && !isInterface(kv.T) {
		kv = g.makeIface(st, kv, mt.Key())
	}
	v := g.val(x.Value)
	if isInterface(mt.Elem()) && !isInterface(v.T) {
		v = g.makeIface(st, v, mt.Elem())
	}
	if !g.localRefs[m.L[0].id] {
		g.effect(st, "map update", Lt(g.entry.wm, m.L[0]))
	}
	k := mapLeafKey(mt, "has")
	g.recordWrite2(k, SBool, ks)
	st.heap = st.heap.With(k, st.heap.Get(k, SBool, ks).Store(m.L[0], kv.L[0], True))
	for i, l := range leavesOf(mt.Elem()) {
		if l.Kind == LKOpaque || i >= len(v.L) {
			continue
		}
		lk := mapLeafKeyL(mt, l)
		g.recordWrite2(lk, l.Sort(), ks)
		st.heap = st.heap.With(lk, st.heap.Get(lk, l.Sort(), ks).Store(m.L[0], kv.L[0], v.L[i]))
	}
}

func (g *gen) recordWrite2(k LeafKey, s Sort, ks Sort) {
	if g.written != nil {
		g.written[k] = leafMeta{sort: s, keySort: ks, old: true}
	}
}

func (g *gen) mapDelete(st *State, m *Term, mt *types.Map, key *Term) {
	ks, ok := mapKeySort(mt)
	if !ok {
		return
	}
	k := mapLeafKey(mt, "has")
	g.recordWrite2(k, SBool, ks)
	st.heap = st.heap.With(k, st.heap.Get(k, SBool, ks).Store(m, key, False))
}

func (g *gen) next(st *State, x *ssa.Next) *Val {
	t := x.Type().(*types.Tuple)
	ok := Fresh("next.ok", SBool)
	ls := []*Term{ok}
	kv := g.freshIn(st, t.At(1).Type(), "next.k")
	vv := g.freshIn(st, t.At(2).Type(), "next.v")
	if x.IsString {
		g.assumeGlobal(Le(Int(0), kv.L[0]))
	} else if rng, isR := x.Iter.(*ssa.Range); isR {
		if mt, isM := rng.X.Type().Underlying().(*types.Map); isM {
			if m, okm := g.rangeOver[rng]; okm && len(kv.L) == 1 {
				if _, sup := mapKeySort(mt); sup && !isBlankTuple(t, 1) {
					has, v := g.mapRead(st, m.L[0], mt, kv.L[0])
					g.assume(st, Implies(ok, has))
					if len(v.L) == len(vv.L) && !isBlankTuple(t, 2) {
						for i := range v.L {
							g.assume(st, Implies(ok, Eq(vv.L[i], v.L[i])))
						}
					}
				}
			}
		}
	}
	ls = append(ls, kv.L...)
	ls = append(ls, vv.L...)
	return &Val{T: t, L: ls}
}

func isBlankTuple(t *types.Tuple, i int) bool {
	return types.Identical(t.At(i).Type(), types.Typ[types.Invalid])
}

// ---------------------------------------------------------------- type assertions

func (g *gen) typeAssert(st *State, x *ssa.TypeAssert) *Val {
	v := g.val(x.X)
	box := v.L[0]
	at := x.AssertedType
	lbl := g.lbl(x.Pos(), "assert", x.String())
	if isInterface(at) {
		ok := And(Neq(box, Int(0)), App("implements."+sanitize(typeKey(at)), SBool, ifaceTag(box)))
		if it, isI := at.Underlying().(*types.Interface); isI && (it.NumMethods() == 0 || types.Implements(x.X.Type(), it)) {
			// asserting to an interface the static type already satisfies is a nil check
			ok = Neq(box, Int(0))
		}
		res := scalar(at, Ite(ok, box, Int(0)))
		if x.CommaOk {
			return &Val{T: x.Type(), L: []*Term{res.L[0], ok}}
		}
		g.oblige(st, "safe:assert", lbl, ok, "interface conversion on a value that may not implement it")
		return scalar(at, box)
	}
	ok := And(Neq(box, Int(0)), Eq(ifaceTag(box), tagOf(at)))
	u := g.unbox(st, box, at)
	if x.CommaOk {
		z := zeroVal(at)
		r := iteVal(ok, u, z)
		g.assume(st, Implies(ok, rangeFacts(u)))
		for i, l := range leavesOf(at) {
			if l.Kind == LKRef || l.Kind == LKSliceArr {
				g.assume(st, Implies(ok, Le(u.L[i], st.wm)))
			}
		}
		tv := &Val{T: x.Type(), L: append(append([]*Term{}, r.L...), ok)}
		if r.Addr != nil {
			g.tupleAddrs[x] = map[int]*AddrInfo{0: r.Addr}
		}
		return tv
	}
	g.oblige(st, "safe:assert", lbl, ok, fmt.Sprintf("type assertion to %s on a value of another dynamic type (or nil)", typeKey(at)))
	g.assume(st, rangeFacts(u))
	for i, l := range leavesOf(at) {
		if l.Kind == LKRef || l.Kind == LKSliceArr {
			g.assume(st, Le(u.L[i], st.wm))
		}
	}
	return u
}

func isByteType(t types.Type) bool {
	b, ok := t.Underlying().(*types.Basic)
	return ok && (b.Kind() == types.Uint8 || b.Kind() == types.Int8)
}
