package main

import (
	"bytes"
	"context"
	"crypto/sha256"
	"encoding/hex"
	"fmt"
	"os/exec"
	"regexp"
	"strings"
	"sync"
	"time"
)

type SolveResult struct {
	Oblig    *Oblig
	Status   string // "unsat" (discharged), "sat" (refuted), "unknown"
	Solver   string
	Time     float64
	Model    map[string]string
	Raw      string
	QuerySHA string
	Query    string
	Tried    []string
	Confirm  string // second solver's verdict in thorough tier
	Level    int
	FR       *FuncResult
}

type solverSpec struct {
	name string
	argv func(timeoutMs int) []string
	pre  []string
}

var solvers = []solverSpec{
	{"z3-5.1.0", func(ms int) []string { return []string{"z3-new", "-in", fmt.Sprintf("-t:%d", ms)} }, nil},
	{"cvc5-1.0.3", func(ms int) []string {
		return []string{"cvc5", "--lang=smt2", fmt.Sprintf("--tlimit=%d", ms), "--strings-exp", "--produce-models"}
	}, nil},
	{"z3-4.8.12", func(ms int) []string { return []string{"z3", "-in", fmt.Sprintf("-t:%d", ms)} }, nil},
}

var symMu sync.Mutex
var symIDs = map[string]int{}
var symCache = map[int][]int{}

// termSyms returns the ids of the free symbols of t (cached).
func termSyms(t *Term) []int {
	symMu.Lock()
	defer symMu.Unlock()
	if s, ok := symCache[t.id]; ok {
		return s
	}
	set := map[string]bool{}
	Symbols(t, set, map[int]bool{})
	out := make([]int, 0, len(set))
	for n := range set {
		id, ok := symIDs[n]
		if !ok {
			id = len(symIDs) + 1
			symIDs[n] = id
		}
		out = append(out, id)
	}
	symCache[t.id] = out
	return out
}

// candidates: the assumptions made on paths that can reach the obligation.
func candidates(r *FuncResult, o *Oblig) []*Term {
	var cands []*Term
	cands = append(cands, r.BaseFacts...)
	for i, a := range r.Assumes[:o.NAssume] {
		ab := r.AssumeBlk[i]
		if ab >= 0 && o.Blk >= 0 && r.anc != nil && !r.anc[o.Blk][ab] {
			continue // made on a path that cannot reach this obligation
		}
		if o.Kind == "vacuity" && r.PreConj[a.id] {
			continue // reachability covers ignore the function's own preconditions
		}
		cands = append(cands, a)
	}
	return cands
}

// buildQuery assembles the negated VC of one obligation, restricted to the
// cone of influence of the goal's symbols. level 0: symbols that occur in very
// many assumptions (hubs) do not pull assumptions in and the closure is cut
// after three rounds; level 1: full closure. Dropping assumptions is sound
// (it can only make an obligation harder to discharge), so level 0 answers
// "unsat" are final and anything else is retried at level 1.
func buildQuery(r *FuncResult, o *Oblig, level int) string {
	return buildQueryWatch(r, o, level, nil)
}

func buildQueryWatch(r *FuncResult, o *Oblig, level int, watch []watchItem) string {
	goal := And(o.Reach, Not(o.Goal))
	cands := candidates(r, o)
	syms := make([][]int, len(cands))
	freq := map[int]int{}
	for i, c := range cands {
		syms[i] = termSyms(c)
		for _, s := range syms[i] {
			freq[s]++
		}
	}
	hub := func(s int) bool { return level == 0 && freq[s] > 40 }
	rel := map[int]bool{}
	for _, s := range termSyms(goal) {
		rel[s] = true
	}
	included := make([]bool, len(cands))
	rounds := 0
	for changed := true; changed; {
		changed = false
		rounds++
		if level == 0 && rounds > 3 {
			break
		}
		var add []int
		for i := range cands {
			if included[i] {
				continue
			}
			hit := len(syms[i]) == 0
			all := true
			for _, s := range syms[i] {
				if rel[s] && !hub(s) {
					hit = true
					break
				}
				if !rel[s] {
					all = false
				}
			}
			if all {
				hit = true // talks only about symbols already in the cone
			}
			if hit {
				included[i] = true
				changed = true
				add = append(add, i)
			}
		}
		for _, i := range add {
			for _, s := range syms[i] {
				rel[s] = true
			}
		}
	}
	var sc Script
	for i, c := range cands {
		if included[i] {
			sc.Asserts = append(sc.Asserts, c)
		}
	}
	sc.Asserts = append(sc.Asserts, goal)
	for _, w := range watch {
		sc.Watch = append(sc.Watch, w.Term)
	}
	return sc.Render("ALL", nil)
}

// runSolverRaw runs a query that carries its own (get-value ...) list.
func runSolverRaw(s solverSpec, query string, timeoutMs int) (string, string, float64) {
	ctx, cancel := context.WithTimeout(context.Background(), time.Duration(timeoutMs+2000)*time.Millisecond)
	defer cancel()
	argv := s.argv(timeoutMs)
	cmd := exec.CommandContext(ctx, argv[0], argv[1:]...)
	full := query + "(check-sat)\n" + watchGetValue(query) + "\n"
	if strings.HasPrefix(s.name, "cvc5") {
		full = "(set-option :produce-models true)\n" + full
	}
	cmd.Stdin = strings.NewReader(full)
	var buf bytes.Buffer
	cmd.Stdout = &buf
	cmd.Stderr = &buf
	t0 := time.Now()
	cmd.Run()
	out := buf.String()
	first := strings.TrimSpace(out)
	if i := strings.Index(first, "\n"); i >= 0 {
		first = first[:i]
	}
	return first, out, time.Since(t0).Seconds()
}

func watchGetValue(query string) string {
	n := strings.Count(query, "(define-fun w!")
	if n == 0 {
		return ""
	}
	var sb strings.Builder
	sb.WriteString("(get-value (")
	for i := 0; i < n; i++ {
		fmt.Fprintf(&sb, "w!%d ", i)
	}
	sb.WriteString("))")
	return sb.String()
}

var modelRe = regexp.MustCompile(`\(define-fun\s+(\|[^|]*\||[^\s()]+)\s+\(\)\s+(Int|Bool|String)\s+((?s:.*?))\)\s*(?:\n|$)`)

func parseModel(out string) map[string]string {
	m := map[string]string{}
	for _, mm := range modelRe.FindAllStringSubmatch(out, -1) {
		name := strings.Trim(mm[1], "|")
		val := strings.TrimSpace(mm[3])
		val = strings.ReplaceAll(val, "\n", " ")
		// (- 5) -> -5
		if strings.HasPrefix(val, "(-") {
			val = "-" + strings.TrimSpace(strings.TrimSuffix(strings.TrimPrefix(val, "(-"), ")"))
		}
		m[name] = val
	}
	return m
}

func runSolver(s solverSpec, query string, timeoutMs int) (status string, out string, dur float64) {
	ctx, cancel := context.WithTimeout(context.Background(), time.Duration(timeoutMs+2000)*time.Millisecond)
	defer cancel()
	argv := s.argv(timeoutMs)
	cmd := exec.CommandContext(ctx, argv[0], argv[1:]...)
	full := query + "(check-sat)\n(get-model)\n"
	if strings.HasPrefix(s.name, "cvc5") {
		full = "(set-option :produce-models true)\n" + full
	}
	cmd.Stdin = strings.NewReader(full)
	var buf bytes.Buffer
	cmd.Stdout = &buf
	cmd.Stderr = &buf
	t0 := time.Now()
	cmd.Run()
	dur = time.Since(t0).Seconds()
	out = buf.String()
	first := strings.TrimSpace(out)
	if i := strings.Index(first, "\n"); i >= 0 {
		first = first[:i]
	}
	switch first {
	case "unsat", "sat":
		return first, out, dur
	}
	if strings.HasPrefix(first, "unknown") || strings.HasPrefix(first, "timeout") || strings.Contains(first, "interrupted by timeout") {
		return "unknown", out, dur
	}
	return "error", out, dur
}

// skipNames: obligations not attempted at all (quick tier: the ones listed as
// undecided, which are excluded from the verdict anyway and would only burn the
// full solver timeout three times over).
var skipNames map[string]string

func solveAll(rs []*FuncResult, timeoutMs int, thorough bool, workers int) []*SolveResult {
	type job struct {
		r *FuncResult
		o *Oblig
	}
	var jobs []job
	for _, r := range rs {
		for _, o := range r.Obligs {
			jobs = append(jobs, job{r, o})
		}
	}
	out := make([]*SolveResult, len(jobs))
	var wg sync.WaitGroup
	ch := make(chan int)
	for w := 0; w < workers; w++ {
		wg.Add(1)
		go func() {
			defer wg.Done()
			for i := range ch {
				if _, skip := skipNames[jobs[i].o.Name]; skip && !thorough {
					out[i] = &SolveResult{Oblig: jobs[i].o, Status: "not-attempted", Solver: "none"}
					continue
				}
				out[i] = solveOblig(jobs[i].r, jobs[i].o, timeoutMs, thorough)
			}
		}()
	}
	for i := range jobs {
		ch <- i
	}
	close(ch)
	wg.Wait()
	return out
}

func solveOblig(r *FuncResult, o *Oblig, timeoutMs int, thorough bool) *SolveResult {
	t0 := time.Now()
	var res *SolveResult
	for level := 0; level <= 1; level++ {
		q := buildQuery(r, o, level)
		tm := timeoutMs
		if level == 0 {
			tm = timeoutMs / 4
			if tm < 1000 {
				tm = 1000
			}
		}
		prev := res
		res = solveQuery(o, q, tm, thorough, level == 0)
		res.Level = level
		if prev != nil {
			res.Tried = append(prev.Tried, res.Tried...)
		}
		if res.Status == "unsat" {
			break
		}
	}
	// a proof that needs a little longer than the quick timeout (slow or loaded
	// machine) must not turn into an alarm on an unchanged tree: one patient retry
	if res.Status == "unknown" && !thorough {
		q := buildQuery(r, o, 1)
		res2 := solveQuery(o, q, timeoutMs*3, false, true)
		res2.Level = 1
		res2.Tried = append(res.Tried, res2.Tried...)
		if res2.Status == "unsat" || res2.Status == "sat" {
			res = res2
		} else {
			res.Tried = res2.Tried
		}
	}
	res.Time = time.Since(t0).Seconds()
	res.FR = r
	return res
}

func solveQuery(o *Oblig, q string, timeoutMs int, thorough bool, firstOnly bool) *SolveResult {
	sum := sha256.Sum256([]byte(q))
	res := &SolveResult{Oblig: o, QuerySHA: hex.EncodeToString(sum[:8]), Query: q, Status: "unknown"}
	for i, s := range solvers {
		if firstOnly && i > 0 {
			break
		}
		st, out, _ := runSolver(s, q, timeoutMs)
		res.Tried = append(res.Tried, s.name+":"+st)
		if st == "unsat" || st == "sat" {
			res.Status, res.Solver, res.Raw = st, s.name, out
			if st == "sat" {
				res.Model = parseModel(out)
			}
			break
		}
		if res.Raw == "" || st == "error" {
			res.Raw = out
		}
	}
	if thorough && res.Status == "unsat" {
		for _, s := range solvers {
			if s.name == res.Solver {
				continue
			}
			st, _, _ := runSolver(s, q, timeoutMs)
			res.Confirm = s.name + ":" + st
			if st == "unsat" || st == "sat" {
				break
			}
		}
	}
	return res
}
