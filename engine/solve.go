package main

import (
	"bytes"
	"context"
	"crypto/sha256"
	"encoding/hex"
	"fmt"
	"os/exec"
	"regexp"
	"strings"
	"sync"
	"time"
)

type SolveResult struct {
	Oblig    *Oblig
	Status   string // "unsat" (discharged), "sat" (refuted), "unknown"
	Solver   string
	Time     float64
	Model    map[string]string
	Raw      string
	QuerySHA string
	Query    string
	Tried    []string
	Confirm  string // second solver's verdict in thorough tier
}

type solverSpec struct {
	name string
	argv func(timeoutMs int) []string
	pre  []string
}

var solvers = []solverSpec{
	{"z3-5.1.0", func(ms int) []string { return []string{"z3-new", "-in", fmt.Sprintf("-t:%d", ms)} }, nil},
	{"cvc5-1.0.3", func(ms int) []string {
		return []string{"cvc5", "--lang=smt2", fmt.Sprintf("--tlimit=%d", ms), "--strings-exp", "--produce-models"}
	}, nil},
	{"z3-4.8.12", func(ms int) []string { return []string{"z3", "-in", fmt.Sprintf("-t:%d", ms)} }, nil},
}

func buildQuery(r *FuncResult, o *Oblig) string {
	var sc Script
	sc.Asserts = append(sc.Asserts, r.BaseFacts...)
	sc.Asserts = append(sc.Asserts, r.Assumes[:o.NAssume]...)
	sc.Asserts = append(sc.Asserts, And(o.Reach, Not(o.Goal)))
	q := sc.Render("ALL", nil)
	return q
}

var modelRe = regexp.MustCompile(`\(define-fun\s+(\|[^|]*\||[^\s()]+)\s+\(\)\s+(Int|Bool|String)\s+((?s:.*?))\)\s*(?:\n|$)`)

func parseModel(out string) map[string]string {
	m := map[string]string{}
	for _, mm := range modelRe.FindAllStringSubmatch(out, -1) {
		name := strings.Trim(mm[1], "|")
		val := strings.TrimSpace(mm[3])
		val = strings.ReplaceAll(val, "\n", " ")
		// (- 5) -> -5
		if strings.HasPrefix(val, "(-") {
			val = "-" + strings.TrimSpace(strings.TrimSuffix(strings.TrimPrefix(val, "(-"), ")"))
		}
		m[name] = val
	}
	return m
}

func runSolver(s solverSpec, query string, timeoutMs int) (status string, out string, dur float64) {
	ctx, cancel := context.WithTimeout(context.Background(), time.Duration(timeoutMs+2000)*time.Millisecond)
	defer cancel()
	argv := s.argv(timeoutMs)
	cmd := exec.CommandContext(ctx, argv[0], argv[1:]...)
	full := query + "(check-sat)\n(get-model)\n"
	if strings.HasPrefix(s.name, "cvc5") {
		full = "(set-option :produce-models true)\n" + full
	}
	cmd.Stdin = strings.NewReader(full)
	var buf bytes.Buffer
	cmd.Stdout = &buf
	cmd.Stderr = &buf
	t0 := time.Now()
	cmd.Run()
	dur = time.Since(t0).Seconds()
	out = buf.String()
	first := strings.TrimSpace(out)
	if i := strings.Index(first, "\n"); i >= 0 {
		first = first[:i]
	}
	switch first {
	case "unsat", "sat":
		return first, out, dur
	}
	if strings.HasPrefix(first, "unknown") || strings.HasPrefix(first, "timeout") {
		return "unknown", out, dur
	}
	return "error", out, dur
}

func solveOne(r *FuncResult, o *Oblig, timeoutMs int, thorough bool) *SolveResult {
	q := buildQuery(r, o)
	sum := sha256.Sum256([]byte(q))
	res := &SolveResult{Oblig: o, QuerySHA: hex.EncodeToString(sum[:8]), Query: q, Status: "unknown"}
	t0 := time.Now()
	for _, s := range solvers {
		st, out, _ := runSolver(s, q, timeoutMs)
		res.Tried = append(res.Tried, s.name+":"+st)
		if st == "unsat" || st == "sat" {
			res.Status, res.Solver, res.Raw = st, s.name, out
			if st == "sat" {
				res.Model = parseModel(out)
			}
			break
		}
		if st == "error" {
			res.Raw = out
		}
	}
	if thorough && res.Status == "unsat" {
		// independent confirmation by a different solver
		for _, s := range solvers {
			if s.name == res.Solver {
				continue
			}
			st, _, _ := runSolver(s, q, timeoutMs)
			res.Confirm = s.name + ":" + st
			if st == "unsat" || st == "sat" {
				break
			}
		}
	}
	res.Time = time.Since(t0).Seconds()
	return res
}

func solveAll(rs []*FuncResult, timeoutMs int, thorough bool, workers int) []*SolveResult {
	type job struct {
		r *FuncResult
		o *Oblig
		i int
	}
	var jobs []job
	for _, r := range rs {
		for _, o := range r.Obligs {
			jobs = append(jobs, job{r, o, len(jobs)})
		}
	}
	out := make([]*SolveResult, len(jobs))
	// queries must be rendered sequentially (term store is not thread-safe)
	queries := make([]string, len(jobs))
	for i, j := range jobs {
		queries[i] = buildQuery(j.r, j.o)
	}
	var wg sync.WaitGroup
	ch := make(chan int)
	for w := 0; w < workers; w++ {
		wg.Add(1)
		go func() {
			defer wg.Done()
			for i := range ch {
				out[i] = solveQuery(jobs[i].o, queries[i], timeoutMs, thorough)
			}
		}()
	}
	for i := range jobs {
		ch <- i
	}
	close(ch)
	wg.Wait()
	return out
}

func solveQuery(o *Oblig, q string, timeoutMs int, thorough bool) *SolveResult {
	sum := sha256.Sum256([]byte(q))
	res := &SolveResult{Oblig: o, QuerySHA: hex.EncodeToString(sum[:8]), Query: q, Status: "unknown"}
	t0 := time.Now()
	for _, s := range solvers {
		st, out, _ := runSolver(s, q, timeoutMs)
		res.Tried = append(res.Tried, s.name+":"+st)
		if st == "unsat" || st == "sat" {
			res.Status, res.Solver, res.Raw = st, s.name, out
			if st == "sat" {
				res.Model = parseModel(out)
			}
			break
		}
		if res.Raw == "" || st == "error" {
			res.Raw = out
		}
	}
	if thorough && res.Status == "unsat" {
		for _, s := range solvers {
			if s.name == res.Solver {
				continue
			}
			st, _, _ := runSolver(s, q, timeoutMs)
			res.Confirm = s.name + ":" + st
			if st == "unsat" || st == "sat" {
				break
			}
		}
	}
	res.Time = time.Since(t0).Seconds()
	return res
}
