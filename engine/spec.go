package main

// Evaluation of contract expressions (Go expression syntax plus old(), ==>,
// forall/exists, sequence operators) into terms, in a pair of states
// (current, old) and an environment of named values.

import (
	"os"
	"sort"
	"fmt"
	"go/ast"
	"golang.org/x/tools/go/ssa"
	"go/constant"
	"go/token"
	"go/types"
	"math/big"
	"strconv"
	"strings"
)

// SeqV is a mathematical sequence: a length and an element function.
type SeqV struct {
	Len  *Term
	At   func(i *Term) *Val
	Elem types.Type
}

type SV struct {
	Ptr *Val   // lazy lvalue: address of a struct-typed value not yet loaded
	V   *Val   // Go value (nil if pure sequence)
	St  *State // state in which V's memory contents are to be read
	Seq *SeqV
}

type SpecEnv struct {
	g    *gen
	vars map[string]*SV
	cur  *State
	old  *State
	pkg  *types.Package
	goal bool // polarity: true = being proved, false = being assumed
	errs []string
	depth int
	// entry: the function's own parameters as the caller passed them (only in
	// the environment of the function under verification): what a parameter
	// name means inside old()
	entry map[string]*SV
	// fallback: names bound only by the function-wide fallback (a variable that
	// denotes one single SSA value in the whole function) - not "in scope" here
	fallback map[string]bool
}

func (e *SpecEnv) clone() *SpecEnv {
	n := *e
	n.vars = map[string]*SV{}
	for k, v := range e.vars {
		n.vars[k] = v
	}
	return &n
}

func (e *SpecEnv) fail(format string, a ...any) {
	msg := fmt.Sprintf(format, a...)
	e.g.specErrors = append(e.g.specErrors, msg)
}

func (g *gen) specEnv(cur, old *State) *SpecEnv {
	env := &SpecEnv{g: g, vars: map[string]*SV{}, cur: cur, old: old, pkg: g.fn.Pkg.Pkg}
	// parameters: by source name, and by the contract's names (positional)
	for name, v := range g.params {
		env.vars[name] = &SV{V: v, St: cur}
	}
	if g.con != nil && g.con.Decl != nil {
		names := contractParamNames(g.con)
		var ps []ssa.Value
		for _, p := range g.fn.Params {
			ps = append(ps, p)
		}
		if g.fn.Parent() != nil {
			// closure: the contract header lists the parameters, then the free variables
			if g.con.Decl.Recv != nil {
				names = names[len(g.con.Decl.Recv.List):]
			}
			for _, fv := range g.fn.FreeVars {
				ps = append(ps, fv)
			}
		}
		for i, n := range names {
			if i < len(ps) && n != "" && n != "_" {
				env.vars[n] = &SV{V: g.vals[ps[i]], St: cur}
			}
		}
	}
	env.entry = map[string]*SV{}
	for k, v := range env.vars {
		env.entry[k] = v
	}
	return env
}

func contractParamNames(c *Contract) []string {
	var names []string
	d := c.Decl
	if d.Recv != nil {
		for _, f := range d.Recv.List {
			if len(f.Names) == 0 {
				names = append(names, "_")
			}
			for _, n := range f.Names {
				names = append(names, n.Name)
			}
		}
	}
	for _, f := range d.Type.Params.List {
		if len(f.Names) == 0 {
			names = append(names, "_")
		}
		for _, n := range f.Names {
			names = append(names, n.Name)
		}
	}
	return names
}

func contractResultNames(c *Contract) []string {
	var names []string
	d := c.Decl
	if d.Type.Results == nil {
		return nil
	}
	for _, f := range d.Type.Results.List {
		if len(f.Names) == 0 {
			names = append(names, "")
		}
		for _, n := range f.Names {
			names = append(names, n.Name)
		}
	}
	return names
}


func (g *gen) evalBool(e ast.Expr, env *SpecEnv, goal bool) *Term {
	env.goal = goal
	sv := env.eval(e)
	if sv == nil || sv.V == nil || len(sv.V.L) != 1 || sv.V.L[0].Sort != SBool {
		env.fail("contract expression is not boolean: %s", exprString(e))
		if goal {
			return False
		}
		return True
	}
	return sv.V.L[0]
}

func (g *gen) evalInt(e ast.Expr, env *SpecEnv) *Term {
	sv := env.eval(e)
	if sv == nil || sv.V == nil || len(sv.V.L) != 1 || sv.V.L[0].Sort != SInt {
		env.fail("contract expression is not an integer: %s", exprString(e))
		return Fresh("bad", SInt)
	}
	return sv.V.L[0]
}

func exprString(e ast.Expr) string {
	return types.ExprString(e)
}

var untypedInt = types.Typ[types.UntypedInt]
var untypedBool = types.Typ[types.UntypedBool]

func svBool(t *Term) *SV { return &SV{V: scalar(types.Typ[types.Bool], t)} }
func svInt(t *Term) *SV  { return &SV{V: scalar(untypedInt, t)} }

func (e *SpecEnv) state() *State { return e.cur }

// toSeq converts a slice / string / array-pointer value to a sequence.
func (e *SpecEnv) toSeq(sv *SV) *SeqV {
	if sv.Seq != nil {
		return sv.Seq
	}
	v := sv.V
	if v == nil {
		return nil
	}
	st := sv.St
	if st == nil {
		st = e.cur
	}
	switch u := v.T.Underlying().(type) {
	case *types.Slice:
		g := e.g
		return &SeqV{Len: v.Len(), Elem: u.Elem(), At: func(i *Term) *Val {
			return g.loadQuiet(st, elemAddr(v, i), u.Elem())
		}}
	case *types.Basic:
		if isString(v.T) {
			s := v.L[0]
			return &SeqV{Len: StrLen(s), Elem: types.Typ[types.Byte], At: func(i *Term) *Val {
				return scalar(types.Typ[types.Byte], mk("str.to_code", SInt, mk("str.at", SStr, s, i)))
			}}
		}
	}
	return nil
}

// loadQuiet loads without adding assumptions tied to a reach condition (used
// inside quantified contexts); range facts of heap contents are added by the
// instantiating code where needed.
func (g *gen) loadQuiet(st *State, p *Val, t types.Type) *Val {
	ls := leavesOf(t)
	v := &Val{T: t, L: make([]*Term, len(ls))}
	for i, l := range ls {
		if l.Kind == LKOpaque || p.Addr == nil || !p.Addr.Known {
			v.L[i] = Fresh("opaque", l.Sort())
			continue
		}
		k := g.leafKeyL(p.Addr, l)
		hv := st.heap.Get(k, l.Sort(), SInt)
		var idx *Term
		if p.Addr.Elem {
			idx = p.Addr.Idx
		}
		v.L[i] = hv.Read(p.L[0], idx)
	}
	if pt, ok := t.Underlying().(*types.Pointer); ok {
		v.Addr = &AddrInfo{Root: pt.Elem(), Known: true}
	}
	return v
}

func (e *SpecEnv) lookupPkgObject(name string) types.Object {
	if e.pkg == nil {
		return nil
	}
	if o := e.pkg.Scope().Lookup(name); o != nil {
		return o
	}
	return nil
}

func (e *SpecEnv) importedPkg(name string) *types.Package {
	if e.pkg == nil {
		return nil
	}
	for _, p := range e.pkg.Imports() {
		if p.Name() == name {
			return p
		}
	}
	// any package in the program with that name
	if p, ok := e.g.eng.pkgByName[name]; ok {
		return p
	}
	return nil
}

func constToSV(c *types.Const) *SV {
	v := c.Val()
	switch v.Kind() {
	case constant.Bool:
		return &SV{V: scalar(c.Type(), Bool(constant.BoolVal(v)))}
	case constant.String:
		return &SV{V: scalar(c.Type(), Str(constant.StringVal(v)))}
	case constant.Int:
		bi, _ := new(big.Int).SetString(v.ExactString(), 10)
		return &SV{V: scalar(c.Type(), IntBig(bi))}
	}
	return nil
}

func (e *SpecEnv) eval(x ast.Expr) *SV {
	return e.force(e.evalRaw(x))
}

// force loads a lazy lvalue.
func (e *SpecEnv) force(sv *SV) *SV {
	if sv == nil || sv.Ptr == nil {
		return sv
	}
	et := sv.Ptr.T.Underlying().(*types.Pointer).Elem()
	st := e.stateOf(sv)
	return &SV{V: e.g.loadQuiet(st, sv.Ptr, et), St: st}
}

func isStructT(t types.Type) bool { _, ok := t.Underlying().(*types.Struct); return ok }

func (e *SpecEnv) evalRaw(x ast.Expr) *SV {
	switch n := x.(type) {
	case *ast.ParenExpr:
		return e.evalRaw(n.X)
	case *ast.BasicLit:
		switch n.Kind {
		case token.INT:
			bi, ok := new(big.Int).SetString(n.Value, 0)
			if !ok {
				e.fail("bad int literal %s", n.Value)
				return nil
			}
			return svInt(IntBig(bi))
		case token.STRING:
			s, err := strconv.Unquote(n.Value)
			if err != nil {
				e.fail("bad string literal %s", n.Value)
				return nil
			}
			return &SV{V: scalar(types.Typ[types.String], Str(s))}
		case token.CHAR:
			s, _, _, err := strconv.UnquoteChar(n.Value[1:len(n.Value)-1], '\'')
			if err != nil {
				e.fail("bad char literal")
				return nil
			}
			return svInt(Int(int64(s)))
		}
	case *ast.Ident:
		switch n.Name {
		case "true":
			return svBool(True)
		case "false":
			return svBool(False)
		case "nil":
			return &SV{V: scalar(types.Typ[types.UntypedNil], Int(0))}
		}
		if v, ok := e.vars[n.Name]; ok {
			if v.Ptr != nil {
				return &SV{Ptr: v.Ptr, St: e.cur}
			}
			if v.V != nil && v.St == nil {
				return &SV{V: v.V, St: e.cur, Seq: v.Seq}
			}
			// values are immutable; memory behind them is read in the
			// *current* evaluation state (old() switches it)
			return &SV{V: v.V, St: e.cur, Seq: v.Seq}
		}
		if o := e.lookupPkgObject(n.Name); o != nil {
			switch oo := o.(type) {
			case *types.Const:
				if sv := constToSV(oo); sv != nil {
					return sv
				}
			case *types.Var:
				// package-level variable: load from its global cell
				r := e.g.globalRef(oo.Pkg().Path() + "." + oo.Name())
				p := &Val{T: types.NewPointer(oo.Type()), L: []*Term{r}, Addr: &AddrInfo{Root: oo.Type(), Known: true}}
				return &SV{V: e.g.loadQuiet(e.cur, p, oo.Type()), St: e.cur}
			}
		}
		e.fail("unknown identifier %s", n.Name)
		return nil
	case *ast.SelectorExpr:
		if id, ok := n.X.(*ast.Ident); ok {
			if _, isVar := e.vars[id.Name]; !isVar {
				if p := e.importedPkg(id.Name); p != nil {
					if o := p.Scope().Lookup(n.Sel.Name); o != nil {
						if c, ok := o.(*types.Const); ok {
							if sv := constToSV(c); sv != nil {
								return sv
							}
						}
						if oo, ok := o.(*types.Var); ok {
							r := e.g.globalRef(oo.Pkg().Path() + "." + oo.Name())
							gp := &Val{T: types.NewPointer(oo.Type()), L: []*Term{r}, Addr: &AddrInfo{Root: oo.Type(), Known: true}}
							return &SV{V: e.g.loadQuiet(e.cur, gp, oo.Type()), St: e.cur}
						}
					}
					e.fail("unsupported package member %s.%s", id.Name, n.Sel.Name)
					return nil
				}
			}
		}
		base := e.evalRaw(n.X)
		if base == nil {
			return nil
		}
		if base.Ptr != nil {
			return e.selectField(&SV{V: base.Ptr, St: base.St}, n.Sel.Name)
		}
		if base.V == nil {
			return nil
		}
		return e.selectField(base, n.Sel.Name)
	case *ast.StarExpr:
		b := e.eval(n.X)
		if b == nil || b.V == nil || !isPointer(b.V.T) {
			e.fail("deref of non-pointer %s", exprString(n.X))
			return nil
		}
		et := b.V.T.Underlying().(*types.Pointer).Elem()
		return &SV{V: e.g.loadQuiet(e.cur, b.V, et), St: e.cur}
	case *ast.UnaryExpr:
		switch n.Op {
		case token.NOT:
			save := e.goal
			e.goal = !save
			a := e.eval(n.X)
			e.goal = save
			if a == nil {
				return nil
			}
			return svBool(Not(a.V.L[0]))
		case token.SUB:
			a := e.eval(n.X)
			if a == nil {
				return nil
			}
			return &SV{V: scalar(a.V.T, Neg(a.V.L[0]))}
		case token.AND:
			return e.evalAddr(n.X)
		}
	case *ast.BinaryExpr:
		return e.evalBinary(n)
	case *ast.IndexExpr:
		b := e.eval(n.X)
		i := e.eval(n.Index)
		if b == nil || i == nil {
			return nil
		}
		if b.V != nil {
			if mt, ok := b.V.T.Underlying().(*types.Map); ok {
				has, v := e.g.mapRead(e.stateOf(b), b.V.L[0], mt, i.V.L[0])
				// Go semantics: a missing key reads as the zero value
				return &SV{V: iteVal(has, v, zeroVal(mt.Elem())), St: e.stateOf(b)}
			}
		}
		if b.V != nil && b.Seq == nil && isSlice(b.V.T) && isStructT(b.V.T.Underlying().(*types.Slice).Elem()) {
			return &SV{Ptr: elemAddr(b.V, i.V.L[0]), St: e.stateOf(b)}
		}
		s := e.toSeq(b)
		if s == nil {
			e.fail("index of non-sequence %s", exprString(n.X))
			return nil
		}
		return &SV{V: s.At(i.V.L[0]), St: e.stateOf(b)}
	case *ast.SliceExpr:
		b := e.eval(n.X)
		if b == nil {
			return nil
		}
		var lo, hi *Term
		if n.Low != nil {
			if l := e.eval(n.Low); l != nil {
				lo = l.V.L[0]
			}
		} else {
			lo = Int(0)
		}
		if n.High != nil {
			if h := e.eval(n.High); h != nil {
				hi = h.V.L[0]
			}
		}
		if lo == nil {
			return nil
		}
		if b.V != nil && isSlice(b.V.T) && b.Seq == nil {
			v := b.V
			if hi == nil {
				hi = v.Len()
			}
			return &SV{V: sliceVal(v.T, v.Arr(), Add(v.Off(), lo), Sub(hi, lo), Sub(v.Cap(), lo)), St: e.stateOf(b)}
		}
		s := e.toSeq(b)
		if s == nil {
			e.fail("slice of non-sequence")
			return nil
		}
		if hi == nil {
			hi = s.Len
		}
		return &SV{Seq: &SeqV{Len: Sub(hi, lo), Elem: s.Elem, At: func(i *Term) *Val { return s.At(Add(lo, i)) }}}
	case *ast.CallExpr:
		return e.evalCall(n)
	}
	e.fail("unsupported contract expression %s (%T)", exprString(x), x)
	return nil
}

func (e *SpecEnv) stateOf(sv *SV) *State {
	if sv.St != nil {
		return sv.St
	}
	return e.cur
}

func (e *SpecEnv) selectField(base *SV, name string) *SV {
	v := base.V
	t := v.T
	st := e.stateOf(base)
	// find field path (with embedded promotion)
	obj, idxs, _ := types.LookupFieldOrMethod(t, true, e.pkgFor(t), name)
	fld, ok := obj.(*types.Var)
	if !ok || !fld.IsField() {
		e.fail("no field %s in %s", name, typeKey(t))
		return nil
	}
	cur := v
	curT := t
	for k, ix := range idxs {
		if pt, isP := curT.Underlying().(*types.Pointer); isP {
			// address of field
			stt := pt.Elem()
			ft := stt.Underlying().(*types.Struct).Field(ix).Type()
			nv := &Val{T: types.NewPointer(ft), L: cur.L}
			if cur.Addr != nil && cur.Addr.Known {
				a := *cur.Addr
				a.Path = joinPath(a.Path, fieldPath(stt, ix))
				nv.Addr = &a
			} else {
				nv.Addr = &AddrInfo{Known: false}
			}
			if isStructT(ft) {
				// stay lazy: keep the address
				cur = nv
				curT = nv.T
				if k == len(idxs)-1 {
					return &SV{Ptr: nv, St: st}
				}
				continue
			}
			cur = e.g.loadQuiet(st, nv, ft)
			curT = ft
		} else {
			cur = fieldOf(cur, ix)
			curT = cur.T
		}
	}
	return &SV{V: cur, St: st}
}

func (e *SpecEnv) pkgFor(t types.Type) *types.Package {
	if pt, ok := t.(*types.Pointer); ok {
		t = pt.Elem()
	}
	if n, ok := t.(*types.Named); ok && n.Obj() != nil {
		return n.Obj().Pkg()
	}
	return e.pkg
}

// evalAddr evaluates an lvalue expression to a pointer value.
func (e *SpecEnv) evalAddr(x ast.Expr) *SV {
	switch n := x.(type) {
	case *ast.ParenExpr:
		return e.evalAddr(n.X)
	case *ast.CallExpr:
		// ghostbytes(obj, "name"): a ghost []byte field attached to any scalar value (e.g. an interface)
		if id, ok := n.Fun.(*ast.Ident); ok && id.Name == "ghostint" && len(n.Args) == 2 {
			o := e.eval(n.Args[0])
			nm := e.eval(n.Args[1])
			if o == nil || nm == nil || o.V == nil || len(o.V.L) == 0 || !nm.V.L[0].IsLit() {
				e.fail("ghostint(obj, \"name\")")
				return nil
			}
			it := types.Typ[types.Int]
			p := &Val{T: types.NewPointer(it), L: []*Term{o.V.L[0]}, Addr: &AddrInfo{Root: it, Known: true, Key: "ghostint:" + nm.V.L[0].S}}
			return &SV{V: p, St: e.cur}
		}
		if id, ok := n.Fun.(*ast.Ident); ok && id.Name == "ghostbytes" && len(n.Args) == 2 {
			o := e.eval(n.Args[0])
			nm := e.eval(n.Args[1])
			if o == nil || nm == nil || o.V == nil || len(o.V.L) == 0 || !nm.V.L[0].IsLit() {
				e.fail("ghostbytes(obj, \"name\")")
				return nil
			}
			bt := types.NewSlice(types.Typ[types.Byte])
			p := &Val{T: types.NewPointer(bt), L: []*Term{o.V.L[0]}, Addr: &AddrInfo{Root: bt, Known: true, Key: "ghost:" + nm.V.L[0].S}}
			return &SV{V: p, St: e.cur}
		}
		e.fail("unsupported lvalue %s", exprString(x))
		return nil
	case *ast.SelectorExpr:
		base := e.eval(n.X)
		if base == nil || base.V == nil {
			return nil
		}
		v := base.V
		if !isPointer(v.T) {
			// addressable struct value: need its address
			b2 := e.evalAddr(n.X)
			if b2 == nil {
				return nil
			}
			v = b2.V
		}
		obj, idxs, _ := types.LookupFieldOrMethod(v.T, true, e.pkgFor(v.T), n.Sel.Name)
		fld, ok := obj.(*types.Var)
		if !ok || !fld.IsField() {
			e.fail("no field %s", n.Sel.Name)
			return nil
		}
		cur := v
		for k, ix := range idxs {
			pt := cur.T.Underlying().(*types.Pointer)
			stt := pt.Elem()
			ft := stt.Underlying().(*types.Struct).Field(ix).Type()
			nv := &Val{T: types.NewPointer(ft), L: cur.L}
			if cur.Addr != nil && cur.Addr.Known {
				a := *cur.Addr
				a.Path = joinPath(a.Path, fieldPath(stt, ix))
				nv.Addr = &a
			} else {
				nv.Addr = &AddrInfo{Known: false}
			}
			cur = nv
			if k < len(idxs)-1 {
				if _, isP := ft.Underlying().(*types.Pointer); isP {
					cur = e.g.loadQuiet(e.stateOf(base), nv, ft)
				}
			}
		}
		return &SV{V: cur, St: e.stateOf(base)}
	case *ast.IndexExpr:
		b := e.eval(n.X)
		i := e.eval(n.Index)
		if b == nil || i == nil || b.V == nil || !isSlice(b.V.T) {
			e.fail("address of non-slice element")
			return nil
		}
		return &SV{V: elemAddr(b.V, i.V.L[0]), St: e.stateOf(b)}
	case *ast.StarExpr:
		return e.eval(n.X)
	case *ast.Ident:
		// an address-taken local: its cell
		if v, ok := e.g.varAt["&"+n.Name]; ok {
			if pv, ok := e.g.vals[v]; ok {
				return &SV{V: pv, St: e.cur}
			}
		}
		e.fail("cannot take the address of %s in a contract", n.Name)
		return nil
	}
	e.fail("unsupported lvalue %s", exprString(x))
	return nil
}

func (e *SpecEnv) freshBound(hint string) *Term {
	return Fresh("k."+hint, SInt)
}

// seqEq builds equality of two sequences according to polarity.
func (e *SpecEnv) seqEq(a, b *SeqV) *Term {
	lenEq := Eq(a.Len, b.Len)
	k := e.freshBound("seq")
	var captured []*Term
	saveCap := e.g.factCapture
	e.g.factCapture = &captured
	av, bv := a.At(k), b.At(k)
	e.g.factCapture = saveCap
	var elemEq []*Term
	n := len(av.L)
	if len(bv.L) < n {
		n = len(bv.L)
	}
	for i := 0; i < n; i++ {
		if av.L[i].Sort == bv.L[i].Sort {
			elemEq = append(elemEq, Eq(av.L[i], bv.L[i]))
		}
	}
	body := Implies(And(Le(Int(0), k), Lt(k, a.Len)), And(elemEq...))
	if e.goal {
		// skolem constant (the solver picks the distinguishing index)
		e.g.releaseFacts(captured)
		return And(lenEq, body)
	}
	return And(lenEq, Forall([]*Term{k}, Implies(And(captured...), body)))
}

func (e *SpecEnv) evalBinary(n *ast.BinaryExpr) *SV {
	switch n.Op {
	case token.LAND, token.LOR:
		a := e.eval(n.X)
		if a == nil {
			return nil
		}
		// short circuit on a literally decided left operand (the right one need
		// not be meaningful then, e.g. a local that is not in scope at this site)
		if a.V != nil && len(a.V.L) == 1 {
			if n.Op == token.LAND && a.V.L[0].IsFalse() {
				return svBool(False)
			}
			if n.Op == token.LOR && a.V.L[0].IsTrue() {
				return svBool(True)
			}
		}
		b := e.eval(n.Y)
		if b == nil {
			return nil
		}
		if n.Op == token.LAND {
			return svBool(And(a.V.L[0], b.V.L[0]))
		}
		return svBool(Or(a.V.L[0], b.V.L[0]))
	}
	a, b := e.eval(n.X), e.eval(n.Y)
	if a == nil || b == nil {
		return nil
	}
	switch n.Op {
	case token.EQL, token.NEQ:
		var eq *Term
		aSeq := a.Seq != nil || (a.V != nil && isSlice(a.V.T))
		bSeq := b.Seq != nil || (b.V != nil && isSlice(b.V.T))
		if (aSeq || bSeq) && !(a.V != nil && isNilConst(a.V)) && !(b.V != nil && isNilConst(b.V)) {
			sa, sb := e.toSeq(a), e.toSeq(b)
			if sa == nil || sb == nil {
				e.fail("sequence comparison with non-sequence: %s", exprString(n))
				return nil
			}
			if n.Op == token.NEQ {
				save := e.goal
				e.goal = !save
				eq = e.seqEq(sa, sb)
				e.goal = save
			} else {
				eq = e.seqEq(sa, sb)
			}
		} else if aSeq || bSeq {
			// comparison with nil: arr == 0
			s := a
			if a.V != nil && isNilConst(a.V) {
				s = b
			}
			if s.V == nil {
				e.fail("nil comparison of pure sequence")
				return nil
			}
			eq = Eq(s.V.Arr(), Int(0))
		} else {
			if a.V == nil || b.V == nil || len(a.V.L) != len(b.V.L) {
				// values of different shape are never equal (lets one guard
				// condition cover call sites with differently typed arguments)
				return svBool(Bool(n.Op == token.NEQ))
			}
			var fs []*Term
			for i := range a.V.L {
				if a.V.L[i].Sort != b.V.L[i].Sort {
					return svBool(Bool(n.Op == token.NEQ))
				}
				fs = append(fs, Eq(a.V.L[i], b.V.L[i]))
			}
			eq = And(fs...)
		}
		if n.Op == token.NEQ {
			eq = Not(eq)
		}
		return svBool(eq)
	}
	if a.V == nil || b.V == nil || len(a.V.L) != 1 || len(b.V.L) != 1 {
		e.fail("bad operands in %s", exprString(n))
		return nil
	}
	A, B := a.V.L[0], b.V.L[0]
	rt := a.V.T
	if rt == untypedInt {
		rt = b.V.T
	}
	if A.Sort == SStr && n.Op == token.ADD {
		return &SV{V: scalar(rt, StrCat(A, B))}
	}
	if A.Sort != SInt || B.Sort != SInt {
		e.fail("non-integer operands in %s", exprString(n))
		return nil
	}
	switch n.Op {
	case token.ADD:
		return &SV{V: scalar(rt, Add(A, B))}
	case token.SUB:
		return &SV{V: scalar(rt, Sub(A, B))}
	case token.MUL:
		return &SV{V: scalar(rt, Mul(A, B))}
	case token.QUO:
		return &SV{V: scalar(rt, goDiv(A, B))}
	case token.REM:
		return &SV{V: scalar(rt, goRem(A, B))}
	case token.LSS:
		return svBool(Lt(A, B))
	case token.LEQ:
		return svBool(Le(A, B))
	case token.GTR:
		return svBool(Gt(A, B))
	case token.GEQ:
		return svBool(Ge(A, B))
	case token.SHL:
		if l, ok := litInt(B); ok && l.IsInt64() {
			return &SV{V: scalar(rt, Mul(A, Pow2(uint(l.Int64()))))}
		}
	case token.SHR:
		if l, ok := litInt(B); ok && l.IsInt64() {
			return &SV{V: scalar(rt, Div(A, Pow2(uint(l.Int64()))))}
		}
	case token.AND:
		if l, ok := litInt(B); ok {
			if k, ok2 := isPow2Minus1(l); ok2 {
				return &SV{V: scalar(rt, Mod(A, Pow2(k)))}
			}
		}
	}
	e.fail("unsupported operator in %s", exprString(n))
	return nil
}

func beValue(s *SeqV, n int, big bool, off *Term) *Term {
	var sum *Term = Int(0)
	for i := 0; i < n; i++ {
		var w uint
		if big {
			w = uint(8 * (n - 1 - i))
		} else {
			w = uint(8 * i)
		}
		b := s.At(Add(off, Int(int64(i)))).L[0]
		sum = Add(sum, Mul(b, Pow2(w)))
	}
	return sum
}

func (e *SpecEnv) resolveType(x ast.Expr) types.Type {
	switch n := x.(type) {
	case *ast.Ident:
		if o := types.Universe.Lookup(n.Name); o != nil {
			if tn, ok := o.(*types.TypeName); ok {
				return tn.Type()
			}
		}
		if o := e.lookupPkgObject(n.Name); o != nil {
			if tn, ok := o.(*types.TypeName); ok {
				return tn.Type()
			}
		}
	case *ast.SelectorExpr:
		if id, ok := n.X.(*ast.Ident); ok {
			if p := e.importedPkg(id.Name); p != nil {
				if o := p.Scope().Lookup(n.Sel.Name); o != nil {
					if tn, ok := o.(*types.TypeName); ok {
						return tn.Type()
					}
				}
			}
		}
	case *ast.StarExpr:
		if t := e.resolveType(n.X); t != nil {
			return types.NewPointer(t)
		}
	case *ast.ArrayType:
		if n.Len == nil {
			if t := e.resolveType(n.Elt); t != nil {
				return types.NewSlice(t)
			}
		}
	case *ast.MapType:
		k, v := e.resolveType(n.Key), e.resolveType(n.Value)
		if k != nil && v != nil {
			return types.NewMap(k, v)
		}
	case *ast.InterfaceType:
		if n.Methods == nil || len(n.Methods.List) == 0 {
			return types.NewInterfaceType(nil, nil)
		}
	}
	return nil
}

func (e *SpecEnv) evalCall(n *ast.CallExpr) *SV {
	name := ""
	switch f := n.Fun.(type) {
	case *ast.Ident:
		name = f.Name
	case *ast.SelectorExpr:
		name = exprString(f)
	case *ast.ParenExpr, *ast.ArrayType, *ast.StarExpr:
		name = ""
	}
	arg := func(i int) *SV {
		if i >= len(n.Args) {
			e.fail("%s: missing argument %d", name, i)
			return nil
		}
		return e.eval(n.Args[i])
	}
	switch name {
	case "old":
		if e.old == nil {
			e.fail("old() used where there is no old state")
			return nil
		}
		ne := *e
		ne.cur = e.old
		// inside old(): a parameter name means the value the caller passed, also
		// where the body has since reassigned the parameter
		ne.vars = map[string]*SV{}
		for k, v := range e.vars {
			ne.vars[k] = v
		}
		for k, v := range e.entry {
			ne.vars[k] = v
		}
		r := ne.eval(n.Args[0])
		e.errs = ne.errs
		return r
	case "atloophead":
		// atloophead(x): the value variable x had at the start of the current iteration
		// of the innermost enclosing (cut) loop that carries x
		id, ok := n.Args[0].(*ast.Ident)
		if !ok {
			e.fail("atloophead(x) expects a variable name")
			return nil
		}
		var best *ssa.Phi
		for ph := range e.g.cutPhi {
			if ph.Comment != id.Name {
				continue
			}
			if e.g.curBlk != nil && !ph.Block().Dominates(e.g.curBlk) {
				continue
			}
			if e.g.curBlk == nil && (e.g.cutting == nil || ph.Block() != e.g.cutting) {
				continue // between blocks: only the loop being cut right now
			}
			if best == nil || best.Block().Dominates(ph.Block()) {
				best = ph
			}
		}
		if best == nil {
			// at the loop entry (and wherever no cut loop carries x) the value at
			// the start of the iteration is the current value
			return e.eval(id)
		}
		return &SV{V: e.g.cutPhi[best], St: e.cur}
	case "loopentry":
		// loopentry(x): the value variable x had when the enclosing (cut) loop was entered
		id, ok := n.Args[0].(*ast.Ident)
		if !ok {
			e.fail("loopentry(x) expects a variable name")
			return nil
		}
		if v, ok := e.g.loopEntryVals[id.Name]; ok {
			return &SV{V: v, St: e.cur}
		}
		return e.eval(id) // not modified by the loop: same value
	case "lastresult":
		// lastresult(F): the value returned by the latest call of F that dominates this point
		id, ok := n.Args[0].(*ast.Ident)
		if !ok {
			e.fail("lastresult(F) expects a function name")
			return nil
		}
		v, ok := e.g.lastCall[id.Name]
		if !ok {
			e.fail("lastresult(%s): no dominating call", id.Name)
			return nil
		}
		return &SV{V: v, St: e.cur}
	case "lastarg":
		// lastarg(F, k): the k-th argument (0 = receiver) of the latest call of F that dominates this point
		id, ok := n.Args[0].(*ast.Ident)
		k := arg(1)
		if !ok || k == nil || !k.V.L[0].IsLit() {
			e.fail("lastarg(F, k) expects a function name and a literal index")
			return nil
		}
		as, ok := e.g.lastArgs[id.Name]
		i := int(k.V.L[0].I.Int64())
		if !ok || i < 0 || i >= len(as) || as[i] == nil {
			e.fail("lastarg(%s, %d): no dominating call with such an argument", id.Name, i)
			return nil
		}
		return &SV{V: as[i], St: e.cur}
	case "sqlparam", "sqlout", "sqltext":
		// Statement text analysis, evaluated by the generator on the literal SQL text:
		//   sqlparam(sql, "Col")  index of the '?' placeholder bound to column Col
		//   sqlout(sql, "Col")    index of Col in the SELECT list
		//   sqltext(sql, "Col")   1 if CREATE TABLE gives Col TEXT affinity (SQLite rules), else 0
		// -1 if the column does not occur.
		a, c := arg(0), arg(1)
		if a == nil || c == nil {
			return nil
		}
		if !a.V.L[0].IsLit() || !c.V.L[0].IsLit() {
			e.fail("%s: the statement text is not a literal at this point", name)
			return nil
		}
		r, err := sqlAnalyse(name, a.V.L[0].S, c.V.L[0].S)
		if err != nil {
			e.fail("%s: %v", name, err)
			return nil
		}
		return svInt(Int(int64(r)))
	case "implies__":
		save := e.goal
		e.goal = !save
		a := arg(0)
		e.goal = save
		if a != nil && a.V != nil && len(a.V.L) == 1 && a.V.L[0].IsFalse() {
			return svBool(True) // antecedent is literally false here: the consequent need not be meaningful
		}
		b := arg(1)
		if a == nil || b == nil {
			return nil
		}
		return svBool(Implies(a.V.L[0], b.V.L[0]))
	case "iff__":
		// both polarities: evaluate quantifier-safe by using the assumed form
		save := e.goal
		e.goal = false
		a, b := arg(0), arg(1)
		e.goal = save
		if a == nil || b == nil {
			return nil
		}
		return svBool(Eq(a.V.L[0], b.V.L[0]))
	case "len":
		a := arg(0)
		if a == nil {
			return nil
		}
		if a.V != nil && isMap(a.V.T) {
			return svInt(App("map.len", SInt, a.V.L[0]))
		}
		s := e.toSeq(a)
		if s == nil {
			e.fail("len of non-sequence")
			return nil
		}
		return &SV{V: scalar(types.Typ[types.Int], s.Len)}
	case "cap":
		a := arg(0)
		if a == nil || a.V == nil || !isSlice(a.V.T) {
			e.fail("cap of non-slice")
			return nil
		}
		return &SV{V: scalar(types.Typ[types.Int], a.V.Cap())}
	case "forall", "exists":
		// forall(k, lo, hi, body): lo <= k < hi
		id, ok := n.Args[0].(*ast.Ident)
		if !ok || len(n.Args) != 4 {
			e.fail("%s(k, lo, hi, body) expected", name)
			return nil
		}
		lo, hi := arg(1), arg(2)
		if lo == nil || hi == nil {
			return nil
		}
		k := e.freshBound(id.Name)
		ne := e.clone()
		ne.vars[id.Name] = svInt(k)
		ne.vars[id.Name].V.T = types.Typ[types.Int]
		var captured []*Term
		saveCap := e.g.factCapture
		e.g.factCapture = &captured
		body := ne.eval(n.Args[3])
		e.g.factCapture = saveCap
		e.errs = append(e.errs, ne.errs...)
		if body == nil {
			return nil
		}
		rng := And(Le(lo.V.L[0], k), Lt(k, hi.V.L[0]))
		if name == "forall" {
			if e.goal {
				e.g.releaseFacts(captured)
				e.g.instantiateHyps([]*Term{k})
				return svBool(Implies(rng, body.V.L[0])) // skolemised
			}
			return svBool(Forall([]*Term{k}, Implies(And(rng, And(captured...)), body.V.L[0])))
		}
		if !e.goal {
			e.g.releaseFacts(captured)
			return svBool(And(rng, body.V.L[0])) // witness constant
		}
		// witness hints: an instance of the body at a term in range implies the
		// existential, so offering the range-loop indices in scope as disjuncts
		// is an equivalence-preserving help for the solver
		res := Exists([]*Term{k}, And(rng, And(captured...), body.V.L[0]))
		hints := append(e.g.rangeIndexTerms(), Int(0), Int(1))
		if os.Getenv("HVC_NO_SUCC_HINTS") == "" {
			for _, w := range e.g.rangeIndexTerms() {
				hints = append(hints, Add(w, Int(1)))
			}
		}
		for _, w := range hints {
			he := e.clone()
			he.vars[id.Name] = svInt(w)
			he.vars[id.Name].V.T = types.Typ[types.Int]
			hb := he.eval(n.Args[3])
			if hb == nil {
				continue
			}
			res = Or(res, And(Le(lo.V.L[0], w), Lt(w, hi.V.L[0]), hb.V.L[0]))
		}
		return svBool(res)
	case "cat":
		var parts []*SeqV
		for i := range n.Args {
			a := arg(i)
			if a == nil {
				return nil
			}
			s := e.toSeq(a)
			if s == nil {
				e.fail("cat of non-sequence")
				return nil
			}
			parts = append(parts, s)
		}
		cur := parts[len(parts)-1]
		for i := len(parts) - 2; i >= 0; i-- {
			a, b := parts[i], cur
			cur = &SeqV{Len: Add(a.Len, b.Len), Elem: a.Elem, At: func(i *Term) *Val {
				return iteVal(Lt(i, a.Len), a.At(i), b.At(Sub(i, a.Len)))
			}}
		}
		return &SV{Seq: cur}
	case "seq":
		var elems []*Val
		for i := range n.Args {
			a := arg(i)
			if a == nil {
				return nil
			}
			elems = append(elems, a.V)
		}
		et := types.Type(types.Typ[types.Byte])
		if len(elems) > 0 && elems[0].T != untypedInt {
			et = elems[0].T
		}
		return &SV{Seq: &SeqV{Len: Int(int64(len(elems))), Elem: et, At: func(i *Term) *Val {
			if len(elems) == 0 {
				return zeroVal(et)
			}
			cur := elems[len(elems)-1]
			for k := len(elems) - 2; k >= 0; k-- {
				cur = iteVal(Eq(i, Int(int64(k))), elems[k], cur)
			}
			return cur
		}}}
	case "be16", "be32", "be64", "le16r", "le32r", "le64r":
		// value of the first n bytes of a sequence read big / little endian
		a := arg(0)
		if a == nil {
			return nil
		}
		s := e.toSeq(a)
		if s == nil {
			e.fail("%s of non-sequence", name)
			return nil
		}
		nb := map[string]int{"be16": 2, "be32": 4, "be64": 8, "le16r": 2, "le32r": 4, "le64r": 8}[name]
		return svInt(beValue(s, nb, strings.HasPrefix(name, "be"), Int(0)))
	case "le16", "le32", "le64", "bytes_be16", "bytes_be32", "bytes_be64":
		// the little/big-endian byte sequence of an integer (mod 2^n)
		a := arg(0)
		if a == nil {
			return nil
		}
		nb := 4
		if strings.HasSuffix(name, "16") {
			nb = 2
		} else if strings.HasSuffix(name, "64") {
			nb = 8
		}
		x := Mod(a.V.L[0], Pow2(uint(8*nb)))
		bigE := strings.HasPrefix(name, "bytes_be")
		return &SV{Seq: &SeqV{Len: Int(int64(nb)), Elem: types.Typ[types.Byte], At: func(i *Term) *Val {
			var cur *Term
			for k := nb - 1; k >= 0; k-- {
				sh := k
				if bigE {
					sh = nb - 1 - k
				}
				bk := Mod(Div(x, Pow2(uint(8*sh))), Int(256))
				if cur == nil {
					cur = bk
				} else {
					cur = Ite(Eq(i, Int(int64(k))), bk, cur)
				}
			}
			return scalar(types.Typ[types.Byte], cur)
		}}}
	case "min", "max":
		a, b := arg(0), arg(1)
		if a == nil || b == nil {
			return nil
		}
		c := Le(a.V.L[0], b.V.L[0])
		if name == "max" {
			c = Ge(a.V.L[0], b.V.L[0])
		}
		return &SV{V: scalar(types.Typ[types.Int], Ite(c, a.V.L[0], b.V.L[0]))}
	case "ite":
		c, a, b := arg(0), arg(1), arg(2)
		if c == nil || a == nil || b == nil {
			return nil
		}
		if a.V != nil && b.V != nil && len(a.V.L) == len(b.V.L) {
			return &SV{V: iteVal(c.V.L[0], a.V, b.V), St: a.St}
		}
		sa, sb := e.toSeq(a), e.toSeq(b)
		if sa != nil && sb != nil {
			cc := c.V.L[0]
			return &SV{Seq: &SeqV{Len: Ite(cc, sa.Len, sb.Len), Elem: sa.Elem, At: func(i *Term) *Val { return iteVal(cc, sa.At(i), sb.At(i)) }}}
		}
		e.fail("ite of incompatible values")
		return nil
	case "sameslice":
		a, b := arg(0), arg(1)
		if a == nil || b == nil || a.V == nil || b.V == nil || !isSlice(a.V.T) || !isSlice(b.V.T) {
			e.fail("sameslice needs two slices")
			return nil
		}
		return svBool(And(Eq(a.V.Len(), b.V.Len()), Or(Eq(a.V.Len(), Int(0)), And(Eq(a.V.Arr(), b.V.Arr()), Eq(a.V.Off(), b.V.Off())))))
	case "bytesofstr":
		// bytesofstr(b, s): b is the whole result of the conversion []byte(s') with s' == s
		a, b := arg(0), arg(1)
		if a == nil || b == nil || a.V == nil || b.V == nil || !isSlice(a.V.T) || !isString(b.V.T) {
			e.fail("bytesofstr needs a byte slice and a string")
			return nil
		}
		src, ok := e.g.str2bytes[a.V.Arr().id]
		if !ok {
			return svBool(False)
		}
		return svBool(And(Eq(src, b.V.L[0]), Eq(a.V.Off(), Int(0)), Eq(a.V.Len(), StrLen(src))))
	case "maphas":
		// maphas(m, k): the map m has an entry under key k
		a, b := arg(0), arg(1)
		if a == nil || b == nil || a.V == nil || b.V == nil {
			return nil
		}
		mt, ok := a.V.T.Underlying().(*types.Map)
		if !ok {
			e.fail("maphas needs a map")
			return nil
		}
		has, _ := e.g.mapRead(e.stateOf(a), a.V.L[0], mt, b.V.L[0])
		return svBool(has)
	case "strofbytes":
		// strofbytes(s, b): s is the result of the conversion string(b') of a slice b' identical to b
		a, b := arg(0), arg(1)
		if a == nil || b == nil || a.V == nil || b.V == nil || !isString(a.V.T) || !isSlice(b.V.T) {
			e.fail("strofbytes needs a string and a byte slice")
			return nil
		}
		src, ok := e.g.bytes2str[a.V.L[0].id]
		if !ok {
			return svBool(False)
		}
		return svBool(And(Eq(src.Len(), b.V.Len()), Or(Eq(src.Len(), Int(0)), And(Eq(src.Arr(), b.V.Arr()), Eq(src.Off(), b.V.Off())))))
	case "samearray":
		a, b := arg(0), arg(1)
		if a == nil || b == nil || a.V == nil || b.V == nil || !isSlice(a.V.T) || !isSlice(b.V.T) {
			e.fail("samearray needs two slices")
			return nil
		}
		return svBool(Eq(a.V.Arr(), b.V.Arr()))
	case "arrayof":
		a := arg(0)
		if a == nil || a.V == nil || !isSlice(a.V.T) {
			e.fail("arrayof needs a slice")
			return nil
		}
		return svInt(a.V.Arr())
	case "samecap":
		a, b := arg(0), arg(1)
		if a == nil || b == nil {
			return nil
		}
		return svBool(Eq(a.V.Cap(), b.V.Cap()))
	case "fresh":
		// allocated during this call: above the entry watermark
		a := arg(0)
		if a == nil || e.old == nil {
			return nil
		}
		return svBool(Lt(e.old.wm, a.V.L[0]))
	case "typeis":
		// typeis(x, T): dynamic type of interface x is T
		a := arg(0)
		t := e.resolveType(n.Args[1])
		if a == nil || t == nil {
			e.fail("typeis: bad arguments")
			return nil
		}
		return svBool(And(Neq(a.V.L[0], Int(0)), Eq(ifaceTag(a.V.L[0]), tagOf(t))))
	case "unboxed":
		// unboxed(x, T): the T value held in interface x
		a := arg(0)
		t := e.resolveType(n.Args[1])
		if a == nil || t == nil {
			e.fail("unboxed: bad arguments")
			return nil
		}
		return &SV{V: e.g.unbox(e.cur, a.V.L[0], t), St: e.cur}
	case "smget", "smhas":
		// smget(obj.Field, key): the element stored under key in a declared sync.Map field
		a := e.evalAddr(n.Args[0])
		k := arg(1)
		if a == nil || k == nil || a.V == nil {
			return nil
		}
		d := e.g.syncMapDeclFor(a.V)
		if d == nil {
			e.fail("%s: not a declared sync.Map field", name)
			return nil
		}
		et := e.g.syncMapElemType(d)
		hk, vk, ks := e.g.syncMapKeys(a.V, d)
		if name == "smhas" {
			return svBool(e.cur.heap.Get(hk, SBool, ks).Read(a.V.L[0], k.V.L[0]))
		}
		v := e.cur.heap.Get(vk, SInt, ks).Read(a.V.L[0], k.V.L[0])
		rv := &Val{T: et, L: []*Term{v}}
		if p, ok := et.Underlying().(*types.Pointer); ok {
			rv.Addr = &AddrInfo{Root: p.Elem(), Known: true}
		}
		return &SV{V: rv, St: e.cur}
	case "forallobj":
		// forallobj(x, "<struct type>", body): body holds for every object of that type that exists (x is a pointer to it)
		id, ok := n.Args[0].(*ast.Ident)
		if !ok || len(n.Args) != 3 {
			e.fail("forallobj(x, type, body)")
			return nil
		}
		ta := arg(1)
		if ta == nil || !ta.V.L[0].IsLit() {
			e.fail("forallobj: type must be a string literal")
			return nil
		}
		t := e.g.eng.namedType(ta.V.L[0].S)
		if t == nil {
			e.fail("forallobj: unknown type %s", ta.V.L[0].S)
			return nil
		}
		r := e.freshBound(id.Name)
		ne := e.clone()
		ne.vars[id.Name] = &SV{V: &Val{T: types.NewPointer(t), L: []*Term{r}, Addr: &AddrInfo{Root: t, Known: true}}}
		body := ne.eval(n.Args[2])
		if body == nil {
			return nil
		}
		// quantified over every reference: the field maps of a struct type are
		// only ever read at objects of that type, so facts about other
		// references are vacuous junk; a function that allocates an object of
		// this type cannot establish (or consistently assume) the clause
		rng := Lt(Int(0), r)
		if e.goal {
			return svBool(Implies(rng, body.V.L[0]))
		}
		return svBool(Forall([]*Term{r}, Implies(rng, body.V.L[0])))
	case "allfield":
		// allfield("<struct type>", "<field>", "<ufb name>"): the uninterpreted predicate holds of that field of every object
		if len(n.Args) != 3 {
			e.fail("allfield(type, field, pred)")
			return nil
		}
		ta, pa, ua := arg(0), arg(1), arg(2)
		if ta == nil || pa == nil || ua == nil || !ta.V.L[0].IsLit() || !pa.V.L[0].IsLit() || !ua.V.L[0].IsLit() {
			e.fail("allfield needs three string literals")
			return nil
		}
		t := e.g.eng.namedType(ta.V.L[0].S)
		if t == nil {
			e.fail("allfield: unknown type %s", ta.V.L[0].S)
			return nil
		}
		st0, _ := t.Underlying().(*types.Struct)
		var ft types.Type
		if st0 != nil {
			for i := 0; i < st0.NumFields(); i++ {
				if st0.Field(i).Name() == pa.V.L[0].S {
					ft = st0.Field(i).Type()
				}
			}
		}
		if ft == nil || len(leavesOf(ft)) != 1 {
			e.fail("allfield: field %s must be a scalar field", pa.V.L[0].S)
			return nil
		}
		l := leavesOf(ft)[0]
		a := &AddrInfo{Root: t, Path: pa.V.L[0].S, Known: true}
		k := e.g.leafKeyL(a, l)
		r := e.freshBound("obj")
		body := App("spec."+ua.V.L[0].S, SBool, e.cur.heap.Get(k, l.Sort(), SInt).Read(r, nil))
		if e.goal {
			return svBool(body)
		}
		return svBool(Forall([]*Term{r}, body))
	case "allunlocked":
		// allunlocked("<struct type>", "<mutex field path>"): no object of that type has this mutex held
		if len(n.Args) != 2 {
			e.fail("allunlocked(type, path)")
			return nil
		}
		ta, pa := arg(0), arg(1)
		if ta == nil || pa == nil || !ta.V.L[0].IsLit() || !pa.V.L[0].IsLit() {
			e.fail("allunlocked needs two string literals")
			return nil
		}
		k := LeafKey{Type: ta.V.L[0].S, Path: joinPath(pa.V.L[0].S, "$held")}
		r := e.freshBound("obj")
		body := Not(e.cur.heap.Get(k, SBool, SInt).Read(r, nil))
		if e.goal {
			return svBool(body)
		}
		return svBool(Forall([]*Term{r}, body))
	case "ghostint":
		a := e.evalAddr(n)
		if a == nil {
			return nil
		}
		return &SV{V: e.g.loadQuiet(e.cur, a.V, types.Typ[types.Int]), St: e.cur}
	case "arg":
		// arg(k): k-th argument of the call being guarded (0 = receiver for methods)
		k := arg(0)
		if k == nil || !k.V.L[0].IsLit() || e.g.guardArgs == nil {
			e.fail("arg(k) is only available in guard-call conditions")
			return nil
		}
		i := int(k.V.L[0].I.Int64())
		if i < 0 || i >= len(e.g.guardArgs) || e.g.guardArgs[i] == nil {
			e.fail("arg(%d): no such argument", i)
			return nil
		}
		return &SV{V: e.g.guardArgs[i], St: e.cur}
	case "ghostbytes":
		a := e.evalAddr(n)
		if a == nil {
			return nil
		}
		bt := types.NewSlice(types.Typ[types.Byte])
		return &SV{V: e.g.loadQuiet(e.cur, a.V, bt), St: e.cur}
	case "held":
		a := e.evalAddr(n.Args[0])
		if a == nil {
			return nil
		}
		return svBool(e.g.heldRead(e.cur, a.V))
	case "strlen":
		a := arg(0)
		if a == nil {
			return nil
		}
		return svInt(StrLen(a.V.L[0]))
	case "storedvalue":
		// storedvalue(): the (scalar) value being stored, in guard-store conditions
		if e.g.storedVal == nil {
			e.fail("storedvalue() is only available in guard-store conditions")
			return nil
		}
		return &SV{V: scalar(types.Typ[types.Int], e.g.storedVal)}
	case "argis":
		// argis(k, "name"): the k-th argument of the guarded call is the source variable `name`
		// (its value at this point), decided by the generator from the SSA
		k, nm := arg(0), arg(1)
		if k == nil || nm == nil || !k.V.L[0].IsLit() || !nm.V.L[0].IsLit() || e.g.curCall == nil {
			e.fail("argis(k, \"name\") is only available in guard-call conditions")
			return nil
		}
		i := int(k.V.L[0].I.Int64())
		cc := e.g.curCall
		var av ssa.Value
		if cc.IsInvoke() {
			if i == 0 {
				av = cc.Value
			} else if i-1 < len(cc.Args) {
				av = cc.Args[i-1]
			}
		} else if i < len(cc.Args) {
			av = cc.Args[i]
		}
		if av == nil {
			return svBool(False)
		}
		name := nm.V.L[0].S
		// look through the slice/convert wrappers of a variadic spread
		for {
			if v, ok := e.g.varAt[name]; ok && v == av {
				return svBool(True)
			}
			if c, ok := e.g.varAt["&"+name]; ok {
				if ld, isLoad := av.(*ssa.UnOp); isLoad && ld.X == c {
					return svBool(True)
				}
				if av == c {
					return svBool(True) // &name itself is passed
				}
			}
			switch x := av.(type) {
			case *ssa.ChangeType:
				av = x.X
				continue
			case *ssa.MakeInterface:
				av = x.X
				continue
			}
			break
		}
		return svBool(False)
	case "inscope":
		// inscope("x"): the local x has a value on every path to this point (decided by the generator)
		a := arg(0)
		if a == nil || !a.V.L[0].IsLit() {
			e.fail("inscope(\"name\") expected")
			return nil
		}
		nm := a.V.L[0].S
		_, ok1 := e.vars[nm]
		return svBool(Bool(ok1 && !e.fallback[nm]))
	case "fnname":
		// fnname(f): the (unqualified) name of the function or method a
		// function value was made from; unconstrained for unknown values
		a := arg(0)
		if a == nil || len(a.V.L) != 1 {
			e.fail("fnname(f): function value expected")
			return nil
		}
		return &SV{V: scalar(types.Typ[types.String], App("fnname", SStr, a.V.L[0]))}
	case "prefixof", "suffixof", "contains":
		a, b := arg(0), arg(1)
		if a == nil || b == nil {
			return nil
		}
		op := map[string]string{"prefixof": "str.prefixof", "suffixof": "str.suffixof", "contains": "str.contains"}[name]
		return svBool(mk(op, SBool, a.V.L[0], b.V.L[0]))
	}
	// spec macro? (macros are global; a package qualifier is ignored)
	mname := name
	if i := strings.LastIndex(mname, "."); i >= 0 {
		mname = mname[i+1:]
	}
	if m, ok := e.g.eng.contracts.macros[mname]; ok && m.Rec {
		var as []*SV
		for i := range m.Params {
			a := arg(i)
			if a == nil {
				return nil
			}
			as = append(as, a)
		}
		if len(n.Args) != len(m.Params) {
			e.fail("%s: %d arguments expected", m.Name, len(m.Params))
			return nil
		}
		return e.evalRec(m, as)
	}
	if m, ok := e.g.eng.contracts.macros[mname]; ok {
		if e.depth > 20 {
			e.fail("macro recursion too deep: %s", name)
			return nil
		}
		ne := e.clone()
		ne.depth = e.depth + 1
		for i, p := range m.Params {
			a := arg(i)
			if a == nil {
				return nil
			}
			ne.vars[p] = a
		}
		r := ne.eval(m.Body)
		return r
	}
	// uninterpreted spec function: uf_<name>(args) -> Int/Bool by suffix
	if strings.HasPrefix(name, "ufs_") {
		var as []*Term
		for i := range n.Args {
			a := arg(i)
			if a == nil {
				return nil
			}
			as = append(as, a.V.L...)
		}
		return &SV{V: scalar(types.Typ[types.String], App("spec."+name, SStr, as...))}
	}
	if strings.HasPrefix(name, "uf_") || strings.HasPrefix(name, "ufb_") {
		var as []*Term
		for i := range n.Args {
			a := arg(i)
			if a == nil {
				return nil
			}
			as = append(as, a.V.L...)
		}
		if strings.HasPrefix(name, "ufb_") {
			return svBool(App("spec."+name, SBool, as...))
		}
		return svInt(App("spec."+name, SInt, as...))
	}
	// type conversion
	if t := e.resolveType(n.Fun); t != nil && len(n.Args) == 1 {
		a := arg(0)
		if a == nil {
			return nil
		}
		if isInteger(t) && len(a.V.L) == 1 && a.V.L[0].Sort == SInt {
			x := a.V.L[0]
			if intBits(t) == 64 && !isUnsigned(t) {
				if a.V.T != nil && isInteger(a.V.T) && isUnsigned(a.V.T) && intBits(a.V.T) == 64 {
					return &SV{V: scalar(t, Ite(Le(Pow2(63), x), Sub(x, Pow2(64)), x))}
				}
				return &SV{V: scalar(t, x)}
			}
			return &SV{V: scalar(t, wrapInt(x, t))}
		}
		return &SV{V: &Val{T: t, L: a.V.L, Addr: a.V.Addr}, St: a.St}
	}
	e.fail("unknown contract function %s", name)
	return nil
}

// releaseFacts: facts about a skolem/witness constant are ordinary global
// facts (or go to the enclosing capture when nested in another binder).
func (g *gen) releaseFacts(fs []*Term) {
	for _, f := range fs {
		if g.factCapture != nil {
			*g.factCapture = append(*g.factCapture, f)
		} else {
			g.baseFacts = append(g.baseFacts, f)
		}
	}
}

// evalRec evaluates an application of a primitive-recursive spec function.
// The application becomes f!<versions>(k, args) where <versions> identifies the
// heap versions the body reads in the current state (two applications share the
// function symbol only if they read the very same versions of every leaf, so the
// symbol denotes one mathematical function). Each application contributes one
// unfolding of the definition, an instance of a total primitive-recursive
// definition and therefore a consequence of it.
func (e *SpecEnv) evalRec(m *SpecMacro, as []*SV) *SV {
	g := e.g
	if g.recName == nil {
		g.recName = map[string]string{}
		g.recUnfolded = map[int]bool{}
		g.recProbe = map[string]bool{}
	}
	var leaves []*Term
	for _, a := range as {
		if a.V == nil {
			e.fail("%s: value arguments expected", m.Name)
			return nil
		}
		leaves = append(leaves, a.V.L...)
	}
	bind := func() *SpecEnv {
		ne := e.clone()
		ne.depth = e.depth + 1
		for i, p := range m.Params {
			ne.vars[p] = as[i]
		}
		return ne
	}
	if g.recProbe[m.Name] {
		// inside the probing pass: the value is irrelevant, only the reads count
		return svInt(Int(0))
	}
	if fn := g.recName[m.Name]; fn != "" {
		// inside an unfolding: the recursive occurrence
		inner := App(fn, SInt, leaves...)
		if m.Nat {
			g.releaseFacts([]*Term{Le(Int(0), inner)})
		}
		return svInt(inner)
	}
	// pass 1: which heap versions does the body read here?
	ids := map[int]bool{}
	saveHook := heapGetHook
	heapGetHook = func(h *HV) { ids[h.id] = true }
	g.recProbe[m.Name] = true
	var sink []*Term
	saveCap := g.factCapture
	g.factCapture = &sink
	pe := bind()
	r1 := pe.eval(m.Body)
	g.factCapture = saveCap
	delete(g.recProbe, m.Name)
	heapGetHook = saveHook
	if r1 == nil || r1.V == nil || len(r1.V.L) != 1 || r1.V.L[0].Sort != SInt {
		e.errs = append(e.errs, pe.errs...)
		e.fail("recspec %s: the body must be an integer expression", m.Name)
		return nil
	}
	var idl []int
	for id := range ids {
		idl = append(idl, id)
	}
	sort.Ints(idl)
	fn := fmt.Sprintf("rec.%s!%x", m.Name, hashInts(idl))
	app := App(fn, SInt, leaves...)
	if !g.recUnfolded[app.id] {
		g.recUnfolded[app.id] = true
		if m.Nat {
			g.releaseFacts([]*Term{Le(Int(0), app)})
		}
		g.recName[m.Name] = fn
		ue := bind()
		r2 := ue.eval(m.Body)
		delete(g.recName, m.Name)
		e.errs = append(e.errs, ue.errs...)
		if r2 != nil && r2.V != nil && len(r2.V.L) == 1 {
			g.releaseFacts([]*Term{Eq(app, r2.V.L[0])})
		}
	}
	return svInt(app)
}

func hashInts(xs []int) uint32 {
	h := uint32(2166136261)
	for _, x := range xs {
		for i := 0; i < 4; i++ {
			h ^= uint32(x>>(8*i)) & 0xff
			h *= 16777619
		}
	}
	return h
}
