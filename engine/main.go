package main

import (
	"flag"
	"golang.org/x/tools/go/ssa"
	"fmt"
	"os"
	"runtime"
	"sort"
	"strings"
	"time"
)

var (
	repoDir  = "/repo/teamserver"
	verifDir = "/verif"
)

func loadPatterns() []string {
	return []string{"Havoc/pkg/agent", "Havoc/pkg/handlers", "Havoc/cmd/server", "Havoc/pkg/common/parser", "Havoc/pkg/common/packer",
		"Havoc/pkg/common", "Havoc/pkg/common/crypt", "Havoc/pkg/socks", "Havoc/pkg/db", "Havoc/pkg/service", "Havoc/pkg/logr",
		"Havoc/pkg/common/builder", "Havoc/pkg/events", "Havoc/pkg/packager", "Havoc/pkg/profile",
		"Havoc/pkg/profile/yaotl/json", "Havoc/pkg/profile/yaotl/hclsyntax"}
}

func main() {
	if len(os.Args) < 2 {
		fmt.Fprintln(os.Stderr, "usage: hvc gen|check|warm|list ...")
		os.Exit(2)
	}
	if d := os.Getenv("HVC_REPO"); d != "" {
		repoDir = d
	}
	if d := os.Getenv("HVC_VERIF"); d != "" {
		verifDir = d
	}
	switch os.Args[1] {
	case "warm":
		t0 := time.Now()
		_, err := LoadEngine(repoDir, loadPatterns())
		if err != nil {
			fmt.Fprintln(os.Stderr, err)
			os.Exit(1)
		}
		fmt.Printf("warm: loaded in %.1fs\n", time.Since(t0).Seconds())
	case "gen":
		cmdGen(os.Args[2:])
	case "loops":
		eng, err := LoadEngine(repoDir, loadPatterns())
		if err != nil {
			fmt.Fprintln(os.Stderr, err)
			os.Exit(1)
		}
		eng.LoadContracts(verifDir + "/specs")
		for n, fn := range eng.funcs {
			if fn.Blocks == nil || !strings.Contains(n, os.Args[2]) {
				continue
			}
			g := &gen{eng: eng, fn: fn, loops: map[*ssa.BasicBlock]*loopInfo{}, rpoIdx: map[*ssa.BasicBlock]int{}}
			g.computeLoops()
			for _, li := range g.loops {
				h, o := eng.loopHeaderText(fn, li)
				fmt.Printf("%s: loop %q #%d\n", n, h, o)
			}
		}
	case "check":
		os.Exit(cmdCheck(os.Args[2:]))
	case "replay":
		os.Exit(cmdReplay(os.Args[2:]))
	default:
		fmt.Fprintln(os.Stderr, "unknown command", os.Args[1])
		os.Exit(2)
	}
}

func cmdGen(args []string) {
	fs := flag.NewFlagSet("gen", flag.ExitOnError)
	sweep := fs.Bool("sweep", false, "sweep mode (safety only)")
	dump := fs.String("dump", "", "dump query of the obligation whose name contains this")
	timeout := fs.Int("t", 5000, "per-obligation timeout ms")
	pkgs := fs.String("pkgs", "", "comma separated package patterns (default: all)")
	verbose := fs.Bool("v", false, "verbose")
	fs.Parse(args)
	pats := loadPatterns()
	if *pkgs != "" {
		pats = strings.Split(*pkgs, ",")
	}
	t0 := time.Now()
	eng, err := LoadEngine(repoDir, pats)
	if err != nil {
		fmt.Fprintln(os.Stderr, err)
		os.Exit(1)
	}
	eng.LoadContracts(verifDir + "/specs")
	for _, e := range eng.contracts.errs {
		fmt.Println("CONTRACT ERROR:", e)
	}
	fmt.Printf("loaded in %.1fs, %d functions, %d contracts\n", time.Since(t0).Seconds(), len(eng.funcs), len(eng.contracts.byKey))
	var names []string
	for n := range eng.funcs {
		for _, a := range fs.Args() {
			if strings.Contains(n, a) {
				names = append(names, n)
				break
			}
		}
	}
	sort.Strings(names)
	var rs []*FuncResult
	for _, n := range names {
		if eng.funcs[n].Blocks == nil {
			continue
		}
		t1 := time.Now()
		r, err := eng.Generate(n, *sweep)
		if err != nil {
			fmt.Println("ERROR", n, err)
			continue
		}
		fmt.Printf("== %s: %d obligations, %d assumptions, %d blocks, %d instrs (%.2fs)\n", n, len(r.Obligs), len(r.Assumes), r.Blocks, r.Instrs, time.Since(t1).Seconds())
		for _, s := range r.SpecErrs {
			fmt.Println("   SPEC ERROR:", s)
		}
		if *verbose {
			for _, s := range r.Notes {
				fmt.Println("   note:", s)
			}
		}
		rs = append(rs, r)
	}
	for _, r := range rs {
		for _, c := range r.Covers {
			if *dump != "" && c.Name == *dump {
				os.WriteFile("/var/tmp/hvc-dump.smt2", []byte(buildQuery(r, c, 1)+"(check-sat)\n"), 0644)
				fmt.Println("cover query dumped")
			}
		}
	}
	res := solveAll(rs, *timeout, false, runtime.NumCPU())
	nOK := 0
	for _, s := range res {
		if s.Status == "unsat" {
			nOK++
			if *verbose {
				fmt.Printf("  ok   %-90s %s %.2fs\n", s.Oblig.Name, s.Solver, s.Time)
			}
		} else {
			fmt.Printf("  %-7s %s  [%s] %s %.2fs %v\n", strings.ToUpper(s.Status), s.Oblig.Name, s.Oblig.Pos, s.Oblig.Detail, s.Time, s.Tried)
			if s.Status == "sat" && *verbose {
				var ks []string
				for k := range s.Model {
					ks = append(ks, k)
				}
				sort.Strings(ks)
				for _, k := range ks {
					if !strings.HasPrefix(k, "$") {
						fmt.Printf("        %s = %s\n", k, s.Model[k])
					}
				}
			}
			if s.Status != "sat" && s.Status != "unsat" && *verbose {
				fmt.Println(s.Raw)
			}
		}
		if *dump != "" && s.Oblig.Name == *dump {
			os.WriteFile("/var/tmp/hvc-dump.smt2", []byte(s.Query+"(check-sat)\n(get-model)\n"), 0644)
			os.WriteFile("/var/tmp/hvc-dump0.smt2", []byte(buildQuery(s.FR, s.Oblig, 0)+"(check-sat)\n(get-model)\n"), 0644)
			fmt.Println("query dumped to /var/tmp/hvc-dump.smt2")
		}
	}
	fmt.Printf("%d/%d discharged\n", nOK, len(res))
}
