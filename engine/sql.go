package main

// Concrete analysis of the (literal) SQL texts used by pkg/db, for the spec
// functions sqlparam / sqlout / sqltext. The statements are a small fixed
// dialect: INSERT INTO t (c, ...) values(?, ...); UPDATE t SET c = ?, ... WHERE c = ?;
// SELECT c, ... FROM t [WHERE c = ? AND ...]; DELETE FROM t WHERE c = ? ...;
// CREATE TABLE "t" ("c" type, ...).

import (
	"fmt"
	"regexp"
	"strings"
)

var (
	reInsert = regexp.MustCompile(`(?is)^\s*INSERT\s+INTO\s+\S+\s*\(([^)]*)\)\s*values\s*\(([^)]*)\)\s*;?\s*$`)
	reAssign = regexp.MustCompile(`"?([A-Za-z_][A-Za-z0-9_]*)"?\s*=\s*\?`)
	reSelect = regexp.MustCompile(`(?is)^\s*SELECT\s+(.*?)\s+FROM\s`)
	reCreate = regexp.MustCompile(`(?is)^\s*CREATE\s+TABLE\s+\S+\s*\((.*)\)\s*;?\s*$`)
)

func sqlIdent(s string) string {
	return strings.Trim(strings.TrimSpace(s), "\"`[]")
}

func sqlAnalyse(fn, sql, col string) (int, error) {
	switch fn {
	case "sqlparam":
		if m := reInsert.FindStringSubmatch(sql); m != nil {
			cols := strings.Split(m[1], ",")
			vals := strings.Split(m[2], ",")
			if len(cols) != len(vals) {
				return 0, fmt.Errorf("INSERT lists %d columns and %d values", len(cols), len(vals))
			}
			for _, v := range vals {
				if strings.TrimSpace(v) != "?" {
					return 0, fmt.Errorf("INSERT value %q is not a placeholder", strings.TrimSpace(v))
				}
			}
			for i, c := range cols {
				if sqlIdent(c) == col {
					return i, nil
				}
			}
			return -1, nil
		}
		if strings.Count(sql, "?") != len(reAssign.FindAllStringSubmatch(sql, -1)) {
			return 0, fmt.Errorf("a placeholder is not of the form <column> = ?")
		}
		for i, m := range reAssign.FindAllStringSubmatch(sql, -1) {
			if m[1] == col {
				return i, nil
			}
		}
		return -1, nil
	case "sqlout":
		m := reSelect.FindStringSubmatch(sql)
		if m == nil {
			return 0, fmt.Errorf("not a SELECT statement")
		}
		for i, c := range strings.Split(m[1], ",") {
			if sqlIdent(c) == col {
				return i, nil
			}
		}
		return -1, nil
	case "sqltext":
		m := reCreate.FindStringSubmatch(sql)
		if m == nil {
			return 0, fmt.Errorf("not a CREATE TABLE statement")
		}
		for _, def := range strings.Split(m[1], ",") {
			f := strings.Fields(strings.TrimSpace(def))
			if len(f) == 0 || sqlIdent(f[0]) != col {
				continue
			}
			// SQLite: determination of column affinity (datatype3.html, 3.1)
			ty := strings.ToUpper(strings.Join(f[1:], " "))
			switch {
			case strings.Contains(ty, "INT"):
				return 0, nil
			case strings.Contains(ty, "CHAR"), strings.Contains(ty, "CLOB"), strings.Contains(ty, "TEXT"):
				return 1, nil
			}
			return 0, nil // BLOB, REAL or NUMERIC affinity
		}
		return -1, nil
	}
	return 0, fmt.Errorf("unknown analysis")
}
