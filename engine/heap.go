package main

// Burstall/Bornat heap with versioned maps. One map per leaf of every struct
// type ("object leaves": Ref -> leaf) and per leaf of every element type
// ("element leaves": Ref x Int -> leaf; maps: Ref x Key -> leaf). Versions are
// kept as generator-side terms and reads are expanded into ite-chains
// (read-over-write at generation time), so the solver only sees UF + LIA.

import (
	"fmt"
	"math/big"
	"strings"
)

type hvKind int

const (
	hvBase hvKind = iota
	hvStore
	hvHavocAt // all keys of one ref replaced by a fresh base
	hvFill    // all keys of one ref set to val
	hvCopy    // range copy from another version (memmove semantics)
	hvIte
	hvBelow // objects up to a watermark read from a, younger ones from b
)

type HV struct {
	kind    hvKind
	prev    *HV
	name    string // base function name (hvBase, hvHavocAt)
	sort    Sort
	keySort Sort // valid if hasKey
	hasKey  bool
	ref     *Term
	key     *Term
	val     *Term
	cond    *Term
	a, b    *HV
	// copy
	src                 *HV
	srcRef, srcLo       *Term
	dstLo, n            *Term
	memo                map[[2]int]*Term
	id                  int
	// facts about every value read from a base (type range, reference bound)
	lo, hi *big.Int
	refWM  *Term
}

// LeafFacts: type-level facts about the values stored in a heap leaf.
type LeafFacts struct {
	Lo, Hi *big.Int
	IsRef  bool
	NonNeg bool
}

var leafFactsReg = map[LeafKey]LeafFacts{}

// baseFactHook receives one fact per base application term created.
var baseFactHook func(fact *Term, univ func() *Term, name string)

// baseFacts reports the type-level fact about one base read, together with a
// generator of the same fact quantified over all arguments of the base function
// (used when the read mentions a bound variable).
func (h *HV) baseFacts(t *Term) {
	if baseFactHook == nil || t.Op != "app" {
		return
	}
	name := t.Name
	mk := func(x *Term) *Term {
		var fs []*Term
		if h.lo != nil {
			fs = append(fs, Le(IntBig(h.lo), x), Le(x, IntBig(h.hi)))
		}
		if h.refWM != nil {
			fs = append(fs, Le(Int(0), x), Le(x, h.refWM))
		}
		return And(fs...)
	}
	if h.lo == nil && h.refWM == nil {
		return
	}
	univ := func() *Term {
		r := Var("q.r!"+name, SInt)
		if h.hasKey {
			k := Var("q.k!"+name, h.keySort)
			return Forall([]*Term{r, k}, mk(App(name, h.sort, r, k)))
		}
		return Forall([]*Term{r}, mk(App(name, h.sort, r)))
	}
	baseFactHook(mk(t), univ, name)
}

var hvCounter int

func newHV(k hvKind, like *HV) *HV {
	hvCounter++
	h := &HV{kind: k, id: hvCounter, memo: map[[2]int]*Term{}}
	if like != nil {
		h.sort, h.keySort, h.hasKey = like.sort, like.keySort, like.hasKey
		h.lo, h.hi, h.refWM = like.lo, like.hi, like.refWM
	}
	return h
}

func baseHV(name string, sort Sort, hasKey bool, keySort Sort) *HV {
	h := newHV(hvBase, nil)
	h.name, h.sort, h.hasKey, h.keySort = name, sort, hasKey, keySort
	args := []Sort{SInt}
	if hasKey {
		args = append(args, keySort)
	}
	DeclareFun(name, args, sort)
	return h
}

func (h *HV) Read(ref, key *Term) *Term {
	kid := 0
	if key != nil {
		kid = key.id
	}
	mk := [2]int{ref.id, kid}
	if t, ok := h.memo[mk]; ok {
		return t
	}
	var t *Term
	switch h.kind {
	case hvBase:
		if h.hasKey {
			t = App(h.name, h.sort, ref, key)
		} else {
			t = App(h.name, h.sort, ref)
		}
		h.baseFacts(t)
	case hvStore:
		c := Eq(ref, h.ref)
		if h.hasKey {
			c = And(c, Eq(key, h.key))
		}
		if c.IsTrue() {
			t = h.val
		} else if c.IsFalse() {
			t = h.prev.Read(ref, key)
		} else {
			t = Ite(c, h.val, h.prev.Read(ref, key))
		}
	case hvHavocAt:
		c := Eq(ref, h.ref)
		var f *Term
		if h.hasKey {
			f = App(h.name, h.sort, ref, key)
		} else {
			f = App(h.name, h.sort, ref)
		}
		h.baseFacts(f)
		if c.IsTrue() {
			t = f
		} else {
			t = Ite(c, f, h.prev.Read(ref, key))
		}
	case hvFill:
		c := Eq(ref, h.ref)
		if c.IsTrue() {
			t = h.val
		} else {
			t = Ite(c, h.val, h.prev.Read(ref, key))
		}
	case hvCopy:
		c := And(Eq(ref, h.ref), Le(h.dstLo, key), Lt(key, Add(h.dstLo, h.n)))
		if c.IsFalse() {
			t = h.prev.Read(ref, key)
		} else {
			sv := h.src.Read(h.srcRef, Add(h.srcLo, Sub(key, h.dstLo)))
			t = Ite(c, sv, h.prev.Read(ref, key))
		}
	case hvIte:
		t = Ite(h.cond, h.a.Read(ref, key), h.b.Read(ref, key))
	case hvBelow:
		c := Le(ref, h.cond)
		if c.IsTrue() {
			t = h.a.Read(ref, key)
		} else if c.IsFalse() {
			t = h.b.Read(ref, key)
		} else {
			t = Ite(c, h.a.Read(ref, key), h.b.Read(ref, key))
		}
	}
	h.memo[mk] = t
	return t
}

func (h *HV) Store(ref, key, val *Term) *HV {
	n := newHV(hvStore, h)
	n.prev, n.ref, n.key, n.val = h, ref, key, val
	return n
}

func (h *HV) HavocAt(ref *Term, hint string, wm *Term) *HV {
	n := newHV(hvHavocAt, h)
	n.prev, n.ref = h, ref
	n.lo, n.hi = h.lo, h.hi
	if h.refWM != nil {
		n.refWM = wm
	}
	n.name = FreshFunName(hint)
	args := []Sort{SInt}
	if h.hasKey {
		args = append(args, h.keySort)
	}
	DeclareFun(n.name, args, h.sort)
	return n
}

func (h *HV) Fill(ref, val *Term) *HV {
	n := newHV(hvFill, h)
	n.prev, n.ref, n.val = h, ref, val
	return n
}

func (h *HV) CopyFrom(dstRef, dstLo, cnt *Term, src *HV, srcRef, srcLo *Term) *HV {
	n := newHV(hvCopy, h)
	n.prev, n.ref, n.dstLo, n.n = h, dstRef, dstLo, cnt
	n.src, n.srcRef, n.srcLo = src, srcRef, srcLo
	return n
}

func hvIteOf(c *Term, a, b *HV) *HV {
	if a == b || c.IsTrue() {
		return a
	}
	if c.IsFalse() {
		return b
	}
	n := newHV(hvIte, a)
	n.cond, n.a, n.b = c, a, b
	return n
}

// hvBelowOf: the version that agrees with a on every object that existed at
// watermark wm and with b on the objects allocated since.
func hvBelowOf(wm *Term, a, b *HV) *HV {
	n := newHV(hvBelow, a)
	n.cond, n.a, n.b = wm, a, b
	return n
}

// LeafKey identifies one heap map.
type LeafKey struct {
	Type string // canonical object or element type
	Path string // leaf path inside it ("" for scalars)
	Elem bool   // element map (keyed) vs object map
}

func (k LeafKey) String() string {
	e := "o"
	if k.Elem {
		e = "e"
	}
	return fmt.Sprintf("%s:%s|%s", e, k.Type, k.Path)
}

type leafMeta struct {
	sort    Sort
	keySort Sort
	// old: some write may have gone to an object that existed before the
	// loop under discovery was entered (false: every write went to an object
	// allocated by the loop body itself)
	old bool
	// cells: private cells of this function (allocated before the loop) that
	// were store targets
	cells map[int]*Term
}

// Heap is a persistent map from leaf keys to versions with a lazy fallback:
// either an epoch (fresh bases named after the epoch) or a merge of two heaps.
type Heap struct {
	m     map[LeafKey]*HV
	epoch string
	mc    *Term
	ma    *Heap
	mb    *Heap
	meta  map[LeafKey]leafMeta
	wm    *Term
	// stable leaves (fields never reassigned after construction) resolve
	// through stableFrom instead of this heap's epoch: a havoc keeps them
	stableFrom *Heap
}

// stableDecl: declared stable fields: type key -> leaf path prefixes
var stableDecl = map[string][]string{}

func isStableKey(k LeafKey) bool {
	// ghost lock state: every function leaves held() as it found it (default
	// lock-pairing postcondition, checked as lock: obligations), so a havoc
	// never changes it
	if strings.HasSuffix(k.Path, "$held") {
		return true
	}
	if k.Elem {
		return false
	}
	for _, p := range stableDecl[k.Type] {
		if p == "*" || k.Path == p || strings.HasPrefix(k.Path, p+".") {
			return true
		}
	}
	return false
}

// NewEpochHeapKeeping: a fresh epoch in which declared-stable leaves keep
// their versions from old.
func NewEpochHeapKeeping(hint string, wm *Term, old *Heap) *Heap {
	h := NewEpochHeap(hint, wm)
	h.stableFrom = old
	return h
}

var epochBases = map[string]*HV{}
var epochCounter int

func NewEpochHeap(hint string, wm *Term) *Heap {
	epochCounter++
	return &Heap{m: map[LeafKey]*HV{}, epoch: fmt.Sprintf("%s%d", sanitize(hint), epochCounter), wm: wm}
}

func setFacts(h *HV, k LeafKey, wm *Term) {
	if f, ok := leafFactsReg[k]; ok {
		h.lo, h.hi = f.Lo, f.Hi
		if f.IsRef {
			h.refWM = wm
		}
	}
}

// heapGetHook observes every leaf version handed out (used to name recursive
// spec functions after the versions they read).
var heapGetHook func(*HV)

func (h *Heap) Get(k LeafKey, sort Sort, keySort Sort) *HV {
	v := h.get(k, sort, keySort)
	if heapGetHook != nil {
		heapGetHook(v)
	}
	return v
}

func (h *Heap) get(k LeafKey, sort Sort, keySort Sort) *HV {
	if v, ok := h.m[k]; ok {
		return v
	}
	var v *HV
	if h.stableFrom != nil && isStableKey(k) {
		v = h.stableFrom.get(k, sort, keySort)
	} else if h.ma != nil {
		v = hvIteOf(h.mc, h.ma.get(k, sort, keySort), h.mb.get(k, sort, keySort))
	} else {
		bn := fmt.Sprintf("H.%s.%s", h.epoch, sanitize(k.String()))
		if b, ok := epochBases[bn]; ok {
			v = b
		} else {
			v = baseHV(bn, sort, k.Elem, keySort)
			setFacts(v, k, h.wm)
			epochBases[bn] = v
		}
	}
	h.m[k] = v // memoise (does not change the meaning of the heap)
	return v
}

func (h *Heap) With(k LeafKey, v *HV) *Heap {
	n := &Heap{m: make(map[LeafKey]*HV, len(h.m)+1), epoch: h.epoch, mc: h.mc, ma: h.ma, mb: h.mb, wm: h.wm, stableFrom: h.stableFrom}
	for kk, vv := range h.m {
		n.m[kk] = vv
	}
	n.m[k] = v
	return n
}

func MergeHeaps(c *Term, a, b *Heap) *Heap {
	if a == b || c.IsTrue() {
		return a
	}
	if c.IsFalse() {
		return b
	}
	return &Heap{m: map[LeafKey]*HV{}, mc: c, ma: a, mb: b}
}
