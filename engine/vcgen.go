package main

// VC generation over go/ssa: a symbolic interpreter over the loop-cut (or
// fully unrolled, for constant-trip loops) control-flow DAG of one function.
// Calls are replaced by contracts, loops by invariants. Every potentially
// panicking instruction, every callee precondition, every postcondition,
// invariant, frame and lock clause becomes a named obligation.

import (
	"os"
	"fmt"
	"go/constant"
	"go/token"
	"go/types"
	"math/big"
	"sort"
	"strings"

	"golang.org/x/tools/go/ssa"
)

type State struct {
	reach *Term
	heap  *Heap
	wm    *Term
}

type Oblig struct {
	Name    string
	Kind    string
	Func    string
	Reach   *Term
	Goal    *Term
	Pos     string
	NAssume int
	Index   int
	Blk     int
	Detail  string
	// model hints for replay: terms whose values we want from the solver
	Watch map[string]*Term
}

type edge struct {
	vars  map[string]ssa.Value
	from  *ssa.BasicBlock
	st    *State
	phis  []*Val // snapshot of the target's phi operands for this edge
}

type loopInfo struct {
	header *ssa.BasicBlock
	blocks map[*ssa.BasicBlock]bool
	back   []*ssa.BasicBlock // sources of back edges
	exitsFromHeaderOnly bool
	inner  bool // contains another loop header
}

type gen struct {
	eng   *Engine
	fn    *ssa.Function
	fname string
	con   *Contract

	vals     map[ssa.Value]*Val
	fnNamed  map[int]bool
	hypForalls []hypForall
	searchK    int             // > 0: bounded unrolling for counterexample search (see searchUnroll)
	cutting    *ssa.BasicBlock // header of the loop whose invariants are being evaluated between blocks
	curCall    *ssa.CallCommon // the call being interpreted (for argis)
	storedVal  *Term           // the value of the store being guarded (for storedvalue)
	cellOf     map[token.Pos]*ssa.Alloc // named locals that live in a cell, by declaration position
	// recursive spec functions (see evalRec)
	recName     map[string]string
	recUnfolded map[int]bool
	recProbe    map[string]bool
	incoming map[*ssa.BasicBlock][]*edge
	done     map[*ssa.BasicBlock]bool
	loops    map[*ssa.BasicBlock]*loopInfo
	rpo      []*ssa.BasicBlock
	rpoIdx   map[*ssa.BasicBlock]int

	assumes []*Term
	assumeBlk []int // origin block index of each assumption (-1 = global)
	curBlk  *ssa.BasicBlock
	obligedAt map[int][]*ssa.BasicBlock
	obligs  []*Oblig
	names   map[string]int
	notes   map[string]bool

	entry   *State
	params  map[string]*Val
	dry     int
	written map[LeafKey]leafMeta
	wroteAll bool
	defers  []*ssa.Defer
	sweep   bool // thin mode: only safety obligations, no frame/post
	curInstr ssa.Instruction
	debugVars map[*ssa.BasicBlock]map[string]ssa.Value
	varAt   map[string]ssa.Value // DebugRef bindings visible in the current block (dominator-correct)
	varAtBlock map[*ssa.BasicBlock]map[string]ssa.Value
	lastCall map[string]*Val // result of the latest call per callee short name (dominator-correct)
	lastCallBlock map[*ssa.BasicBlock]map[string]*Val
	lastArgs      map[string][]*Val // arguments of the latest call per callee short name (dominator-correct)
	lastArgsBlock map[*ssa.BasicBlock]map[string][]*Val
	retStates []*retPoint
	cutPhi map[*ssa.Phi]*Val
	closures map[int]*closureInfo
	preTerms []*Term
	lockKeys map[LeafKey][]lockUse
	deferArgs map[*ssa.Defer][]*Val
	tupleAddrs map[ssa.Value]map[int]*AddrInfo
	rangeOver map[*ssa.Range]*Val
	str2bytes map[int]*Term
	bytes2str map[int]*Val // string(b) conversions: result term -> the slice converted
	specErrors []string
	baseFacts []*Term
	factCapture *[]*Term
	guards []guardSpec
	localRefs map[int]bool
	privCells []privCell
	// iterTerm: number of completed iterations of the innermost loop being cut (iter__ in contracts)
	iterTerm *Term
	// refs allocated while a loop body is executed for discovery (nil outside)
	dryAllocs map[int]bool
	globalsSeen map[int]bool
	boxed map[int]*Val
	loopEntryVals map[string]*Val
	varAll map[string]map[ssa.Value]bool
	guardArgs []*Val
	univDone map[string]bool
	preConj map[int]bool
	callSites map[string][]token.Pos
	unsupported int
}

type retPoint struct {
	nAssume int
	blk     *ssa.BasicBlock
	vars    map[string]ssa.Value
	st      *State
	results []*Val
	pos     token.Pos
}

func (g *gen) note(format string, a ...any) {
	if g.dry > 0 {
		return
	}
	g.notes[fmt.Sprintf(format, a...)] = true
}

func (g *gen) curPos() token.Pos {
	if g.curInstr != nil {
		return g.curInstr.Pos()
	}
	return token.NoPos
}

func (g *gen) blkIdx() int {
	if g.curBlk == nil {
		return -1
	}
	return g.curBlk.Index
}

func (g *gen) assume(st *State, f *Term) {
	if g.dry > 0 || f.IsTrue() {
		return
	}
	if f.Op == "and" {
		for _, c := range f.Args {
			g.assume(st, c)
		}
		return
	}
	imp := Implies(st.reach, f)
	if imp.IsTrue() {
		return
	}
	g.assumes = append(g.assumes, imp)
	g.assumeBlk = append(g.assumeBlk, g.blkIdx())
	if f.Op == "forall" && len(f.Q) == 1 {
		g.hypForalls = append(g.hypForalls, hypForall{f: f, reach: st.reach, blk: g.blkIdx()})
	}
}

// hypForall: a universally quantified hypothesis, kept so that instances at
// terms of interest (range indices, skolem constants of universally quantified
// goals) can be handed to the solver explicitly. An instance is a consequence of
// the hypothesis and is assumed under the same path condition and block.
type hypForall struct {
	f     *Term
	reach *Term
	blk   int
	done  map[int]bool
}

const maxHypForalls = 16

func (g *gen) instantiateHyps(ws []*Term) {
	if g.dry > 0 {
		return
	}
	lo := len(g.hypForalls) - maxHypForalls
	if lo < 0 {
		lo = 0
	}
	for i := lo; i < len(g.hypForalls); i++ {
		h := &g.hypForalls[i]
		if h.done == nil {
			h.done = map[int]bool{}
		}
		for _, w := range ws {
			if h.done[w.id] || w.Sort != h.f.Q[0].Sort {
				continue
			}
			h.done[w.id] = true
			inst := Subst(h.f.Args[0], h.f.Q[0], w, map[int]*Term{})
			imp := Implies(h.reach, inst)
			if imp.IsTrue() {
				continue
			}
			g.assumes = append(g.assumes, imp)
			g.assumeBlk = append(g.assumeBlk, h.blk)
		}
	}
}

func (g *gen) assumeGlobal(f *Term) {
	if g.dry > 0 || f.IsTrue() {
		return
	}
	if f.Op == "and" {
		for _, c := range f.Args {
			g.assumeGlobal(c)
		}
		return
	}
	g.assumes = append(g.assumes, f)
	g.assumeBlk = append(g.assumeBlk, -1)
}

func (g *gen) oblige(st *State, kind, label string, goal *Term, detail string) *Oblig {
	if g.dry > 0 {
		return nil
	}
	if st.reach.IsFalse() {
		return nil
	}
	if goal.IsTrue() && (strings.HasPrefix(kind, "safe:") || kind == "frame") {
		return nil
	}
	if len(g.hypForalls) > 0 {
		g.instantiateHyps(g.rangeIndexTerms())
	}
	// the same goal already obliged at a dominating point is known there
	// (assert-then-assume): do not ask again
	if g.curBlk != nil && (strings.HasPrefix(kind, "safe:") || kind == "pre" || kind == "frame") {
		for _, d := range g.obligedAt[goal.id] {
			if d.Dominates(g.curBlk) {
				return nil
			}
		}
		g.obligedAt[goal.id] = append(g.obligedAt[goal.id], g.curBlk)
	}
	base := fmt.Sprintf("%s:%s:%s", kind, g.fname, label)
	g.names[base]++
	name := base
	if g.names[base] > 1 {
		name = fmt.Sprintf("%s#%d", base, g.names[base])
	}
	pos := ""
	if g.curInstr != nil && g.curInstr.Pos().IsValid() {
		p := g.eng.fset.Position(g.curInstr.Pos())
		pos = fmt.Sprintf("%s:%d", p.Filename, p.Line)
	}
	o := &Oblig{Name: name, Kind: kind, Func: g.fname, Reach: st.reach, Goal: goal, NAssume: len(g.assumes), Index: len(g.obligs), Pos: pos, Detail: detail, Blk: g.blkIdx()}
	g.obligs = append(g.obligs, o)
	// assert-then-assume
	if imp := Implies(st.reach, goal); !imp.IsTrue() {
		g.assumes = append(g.assumes, imp)
		g.assumeBlk = append(g.assumeBlk, g.blkIdx())
	}
	return o
}

// ---------------------------------------------------------------- addresses

func addrTypeKey(a *AddrInfo) string {
	if a.Key != "" {
		return a.Key
	}
	return typeKey(a.Root)
}

func (g *gen) leafKeyFor(a *AddrInfo, leafPath string) LeafKey {
	return LeafKey{Type: addrTypeKey(a), Path: joinPath(a.Path, leafPath), Elem: a.Elem}
}

func factsOf(l Leaf) (LeafFacts, bool) {
	switch l.Kind {
	case LKInt:
		if lo, hi, ok := intRange(l.T); ok {
			return LeafFacts{Lo: lo, Hi: hi}, true
		}
	case LKRef, LKSliceArr:
		return LeafFacts{IsRef: true}, true
	case LKSliceOff, LKSliceLen, LKSliceCap:
		return LeafFacts{Lo: big.NewInt(0), Hi: maxLen}, true
	case LKIface, LKFunc:
		return LeafFacts{Lo: big.NewInt(0), Hi: new(big.Int).Lsh(big.NewInt(1), 62)}, true
	}
	return LeafFacts{}, false
}

func (g *gen) leafKeyL(a *AddrInfo, l Leaf) LeafKey {
	k := LeafKey{Type: addrTypeKey(a), Path: joinPath(a.Path, l.Path), Elem: a.Elem}
	if _, ok := leafFactsReg[k]; !ok {
		if f, ok := factsOf(l); ok {
			leafFactsReg[k] = f
		}
	}
	return k
}

func keySortOf(a *AddrInfo) Sort { return SInt }

// load reads a value of type t through pointer p in state st.
// wholeArrayObject: p points at a whole (small) array object, whose elements
// live in the element maps (that is where IndexAddr stores put them).
func wholeArrayObject(p *Val, t types.Type) *types.Array {
	arr, ok := t.Underlying().(*types.Array)
	if !ok || arr.Len() > 8 || p.Addr == nil || !p.Addr.Known || p.Addr.Elem || p.Addr.Path != "" || p.Addr.Key != "" {
		return nil
	}
	if ra, ok := p.Addr.Root.Underlying().(*types.Array); !ok || !types.Identical(ra, arr) {
		return nil
	}
	return arr
}

func (g *gen) load(st *State, p *Val, t types.Type) *Val {
	if arr := wholeArrayObject(p, t); arr != nil {
		v := &Val{T: t}
		for i := int64(0); i < arr.Len(); i++ {
			ep := &Val{T: types.NewPointer(arr.Elem()), L: p.L, Addr: &AddrInfo{Root: arr.Elem(), Elem: true, Idx: Int(i), Known: true}}
			v.L = append(v.L, g.load(st, ep, arr.Elem()).L...)
		}
		return v
	}
	ls := leavesOf(t)
	if p.Addr == nil || !p.Addr.Known {
		g.note("load through pointer of unknown shape (%s): result havoced", typeKey(t))
		v := freshVal(t, "unkload")
		g.assumeGlobal(rangeFacts(v))
		return v
	}
	v := &Val{T: t, L: make([]*Term, len(ls))}
	for i, l := range ls {
		if l.Kind == LKOpaque {
			v.L[i] = Fresh("opaque", SInt)
			continue
		}
		k := g.leafKeyL(p.Addr, l)
		hv := st.heap.Get(k, l.Sort(), SInt)
		var idx *Term
		if p.Addr.Elem {
			idx = p.Addr.Idx
		}
		v.L[i] = hv.Read(p.L[0], idx)
	}
	if pt, ok := t.Underlying().(*types.Pointer); ok {
		v.Addr = &AddrInfo{Root: pt.Elem(), Known: true}
	}
	// type invariants of what was read (ranges; refs below the watermark)
	g.assume(st, rangeFacts(v))
	for i, l := range ls {
		if l.Kind == LKRef || l.Kind == LKSliceArr {
			g.assume(st, Le(v.L[i], st.wm))
		}
	}
	return v
}

func (g *gen) recordWrite(k LeafKey, s Sort) {
	if g.written != nil {
		g.written[k] = leafMeta{sort: s, keySort: SInt, old: true}
	}
}

// recordStore: a store instruction of the loop body under discovery. If its
// target is (syntactically) an object the body itself allocated during this
// discovery pass, the write cannot touch an object that existed before the loop.
func (g *gen) recordStore(k LeafKey, s Sort, target *Term) {
	if g.written == nil {
		return
	}
	m, seen := g.written[k]
	fresh := g.dryAllocs != nil && g.dryAllocs[target.id]
	if !seen {
		m = leafMeta{sort: s, keySort: SInt}
	}
	if !fresh {
		if g.isPrivRef(target) && !k.Elem {
			if m.cells == nil {
				m.cells = map[int]*Term{}
			}
			m.cells[target.id] = target
		} else {
			m.old = true
		}
	}
	g.written[k] = m
}

func (g *gen) isPrivRef(t *Term) bool {
	for _, c := range g.privCells {
		if c.ref.id == t.id {
			return true
		}
	}
	return false
}

func (g *gen) store(st *State, p *Val, t types.Type, v *Val) {
	if arr := wholeArrayObject(p, t); arr != nil && len(v.L) == len(leavesOf(t)) {
		n := len(leavesOf(arr.Elem()))
		for i := int64(0); i < arr.Len(); i++ {
			ep := &Val{T: types.NewPointer(arr.Elem()), L: p.L, Addr: &AddrInfo{Root: arr.Elem(), Elem: true, Idx: Int(i), Known: true}}
			g.store(st, ep, arr.Elem(), &Val{T: arr.Elem(), L: v.L[int(i)*n : int(i+1)*n]})
		}
		return
	}
	ls := leavesOf(t)
	if p.Addr == nil || !p.Addr.Known {
		g.note("store through pointer of unknown shape: heap havoced")
		g.havocAll(st, "unkstore")
		return
	}
	if len(v.L) != len(ls) {
		g.note("store: leaf mismatch for %s", typeKey(t))
		g.havocAll(st, "badstore")
		return
	}
	if !g.localRefs[p.L[0].id] {
		g.effect(st, "store", Lt(g.entry.wm, p.L[0]))
		for _, l := range ls {
			if l.Kind != LKOpaque && isStableKey(g.leafKeyFor(p.Addr, l.Path)) {
				g.oblige(st, "stable", g.lbl(g.curPos(), "", "store"), Lt(g.entry.wm, p.L[0]), "store to a field declared stable (never reassigned after construction) on an object that existed before the call")
				break
			}
		}
	}
	if v.Addr != nil && (v.Addr.Elem || v.Addr.Path != "") && len(ls) == 1 && ls[0].Kind == LKRef {
		g.note("interior pointer stored to the heap (escape): aliasing through it is not tracked")
	}
	for i, l := range ls {
		if l.Kind == LKOpaque {
			continue
		}
		k := g.leafKeyL(p.Addr, l)
		g.recordStore(k, l.Sort(), p.L[0])
		g.checkStoreGuards(st, k, g.localRefs[p.L[0].id], v.L[i])
		hv := st.heap.Get(k, l.Sort(), SInt)
		var idx *Term
		if p.Addr.Elem {
			idx = p.Addr.Idx
		}
		st.heap = st.heap.With(k, hv.Store(p.L[0], idx, v.L[i]))
	}
}

func (g *gen) havocAll(st *State, hint string) {
	g.wroteAll = true
	nw := Fresh("wm", SInt)
	g.assumeGlobal(Le(st.wm, nw))
	st.wm = nw
	old := st.heap
	st.heap = NewEpochHeapKeeping(hint, nw, old)
	// private cells (address-taken locals that never reach a callee: only
	// loaded, stored and captured by goroutine closures) keep their contents
	for _, c := range g.privCells {
		a := &AddrInfo{Root: c.t, Known: true}
		for _, l := range leavesOf(c.t) {
			if l.Kind == LKOpaque {
				continue
			}
			k := g.leafKeyL(a, l)
			v := old.Get(k, l.Sort(), SInt).Read(c.ref, nil)
			st.heap = st.heap.With(k, st.heap.Get(k, l.Sort(), SInt).Store(c.ref, nil, v))
		}
	}
}

// fieldAddrPrivate: the field address is only used to load or store the field.
func fieldAddrPrivate(fa *ssa.FieldAddr, depth int) bool {
	if depth > 4 {
		return false
	}
	refs := fa.Referrers()
	if refs == nil {
		return true
	}
	for _, r := range *refs {
		switch u := r.(type) {
		case *ssa.UnOp, *ssa.DebugRef:
		case *ssa.Store:
			if u.Addr != ssa.Value(fa) {
				return false
			}
		case *ssa.FieldAddr:
			if !fieldAddrPrivate(u, depth+1) {
				return false
			}
		default:
			return false
		}
	}
	return true
}

// freeVarReadOnly: the closure only loads through this captured address.
func freeVarReadOnly(fv *ssa.FreeVar, depth int) bool {
	if depth > 3 {
		return false
	}
	refs := fv.Referrers()
	if refs == nil {
		return true
	}
	for _, r := range *refs {
		switch u := r.(type) {
		case *ssa.UnOp, *ssa.DebugRef:
		case *ssa.Store:
			return false
		case *ssa.MakeClosure:
			fn, _ := u.Fn.(*ssa.Function)
			if fn == nil {
				return false
			}
			for i, b := range u.Bindings {
				if b == ssa.Value(fv) && i < len(fn.FreeVars) && !freeVarReadOnly(fn.FreeVars[i], depth+1) {
					return false
				}
			}
		default:
			return false
		}
	}
	return true
}

type privCell struct {
	ref *Term
	t   types.Type
}

// isPrivateCell: an Alloc whose address is only used to load, to store into
// it, or as a binding of a closure that is only ever started with `go`.
func isPrivateCell(x *ssa.Alloc) bool {
	et := x.Type().(*types.Pointer).Elem()
	switch et.Underlying().(type) {
	case *types.Array:
		return false
	}
	refs := x.Referrers()
	if refs == nil {
		return false
	}
	for _, r := range *refs {
		switch u := r.(type) {
		case *ssa.Store:
			if u.Addr != ssa.Value(x) {
				return false // the address itself is stored somewhere
			}
		case *ssa.UnOp:
		case *ssa.DebugRef:
		case *ssa.FieldAddr:
			if !fieldAddrPrivate(u, 0) {
				return false
			}
		case *ssa.MakeClosure:
			// which free variable(s) of the closure is this cell bound to?
			fn, _ := u.Fn.(*ssa.Function)
			if fn == nil {
				return false
			}
			goOnly := true
			if cr := u.Referrers(); cr != nil {
				for _, cu := range *cr {
					switch cu.(type) {
					case *ssa.Go, *ssa.DebugRef:
					default:
						goOnly = false
					}
				}
			}
			if goOnly {
				continue // runs concurrently: no interleaving semantics
			}
			for i, b := range u.Bindings {
				if b == ssa.Value(x) && i < len(fn.FreeVars) {
					if !freeVarReadOnly(fn.FreeVars[i], 0) {
						return false
					}
				}
			}
		default:
			return false
		}
	}
	return true
}

func (g *gen) alloc(st *State, hint string) *Term {
	r := Fresh(hint, SInt)
	g.localRefs[r.id] = true
	if g.dryAllocs != nil {
		g.dryAllocs[r.id] = true
	}
	g.assumeGlobal(Lt(st.wm, r))
	g.assumeGlobal(Lt(Int(0), r))
	st.wm = r
	return r
}

// zeroObject initialises all leaves of a freshly allocated object of type t.
func (g *gen) zeroObject(st *State, ref *Term, t types.Type) {
	if arr, ok := t.Underlying().(*types.Array); ok {
		g.fillElems(st, ref, arr.Elem())
		return
	}
	a := &AddrInfo{Root: t, Known: true}
	for _, l := range leavesOf(t) {
		if l.Kind == LKOpaque {
			continue
		}
		k := g.leafKeyL(a, l)
		hv := st.heap.Get(k, l.Sort(), SInt)
		var z *Term
		switch l.Sort() {
		case SBool:
			z = False
		case SStr:
			z = Str("")
		default:
			z = Int(0)
		}
		st.heap = st.heap.With(k, hv.Store(ref, nil, z))
	}
}

func (g *gen) fillElems(st *State, ref *Term, elem types.Type) {
	a := &AddrInfo{Root: elem, Known: true, Elem: true}
	for _, l := range leavesOf(elem) {
		if l.Kind == LKOpaque {
			continue
		}
		k := g.leafKeyL(a, l)
		hv := st.heap.Get(k, l.Sort(), SInt)
		var z *Term
		switch l.Sort() {
		case SBool:
			z = False
		case SStr:
			z = Str("")
		default:
			z = Int(0)
		}
		st.heap = st.heap.With(k, hv.Fill(ref, z))
	}
}

func (g *gen) havocElems(st *State, ref *Term, elem types.Type, hint string) {
	a := &AddrInfo{Root: elem, Known: true, Elem: true}
	for _, l := range leavesOf(elem) {
		if l.Kind == LKOpaque {
			continue
		}
		k := g.leafKeyL(a, l)
		g.recordWrite(k, l.Sort())
		hv := st.heap.Get(k, l.Sort(), SInt)
		st.heap = st.heap.With(k, hv.HavocAt(ref, hint, st.wm))
	}
}

// elemAddr builds the address of element i of slice s.
func elemAddr(s *Val, i *Term) *Val {
	et := s.T.Underlying().(*types.Slice).Elem()
	return &Val{T: types.NewPointer(et), L: []*Term{s.Arr()}, Addr: &AddrInfo{Root: et, Elem: true, Idx: Add(s.Off(), i), Known: true}}
}

// readElem reads element i of a slice in the given heap.
func (g *gen) readElem(st *State, s *Val, i *Term) *Val {
	et := s.T.Underlying().(*types.Slice).Elem()
	return g.load(st, elemAddr(s, i), et)
}

// ---------------------------------------------------------------- values

func (g *gen) constVal(c *ssa.Const) *Val {
	t := c.Type()
	if c.Value == nil {
		return zeroVal(t)
	}
	switch c.Value.Kind() {
	case constant.Bool:
		return scalar(t, Bool(constant.BoolVal(c.Value)))
	case constant.String:
		return scalar(t, Str(constant.StringVal(c.Value)))
	case constant.Int:
		if isInteger(t) || true {
			bi, ok := new(big.Int).SetString(c.Value.ExactString(), 10)
			if ok {
				if b, isB := t.Underlying().(*types.Basic); isB && b.Info()&types.IsFloat != 0 {
					return scalar(t, App("float.ofint", SInt, IntBig(bi)))
				}
				return scalar(t, IntBig(bi))
			}
		}
	}
	// floats, complex: uninterpreted constant keyed by text
	return scalar(t, App("const."+sanitize(c.Value.ExactString()), SInt))
}

func (g *gen) globalRef(name string) *Term {
	t := Var("G."+sanitize(name), SInt)
	if !g.globalsSeen[t.id] {
		g.globalsSeen[t.id] = true
		wm0 := Var("wm0", SInt)
		if g.dry == 0 {
			g.assumes = append(g.assumes, Lt(Int(0), t), Le(t, wm0))
			g.assumeBlk = append(g.assumeBlk, -1, -1)
		} else {
			delete(g.globalsSeen, t.id)
		}
	}
	return t
}

func (g *gen) val(v ssa.Value) *Val {
	switch x := v.(type) {
	case *ssa.Const:
		return g.constVal(x)
	case *ssa.Global:
		r := g.globalRef(x.RelString(nil))
		return &Val{T: x.Type(), L: []*Term{r}, Addr: &AddrInfo{Root: x.Type().(*types.Pointer).Elem(), Known: true}}
	case *ssa.Function:
		f := App("fn."+sanitize(x.String()), SInt)
		if !g.fnNamed[f.id] {
			if g.fnNamed == nil {
				g.fnNamed = map[int]bool{}
			}
			g.fnNamed[f.id] = true
			g.assumeGlobal(Eq(App("fnname", SStr, f), Str(strings.TrimSuffix(x.Name(), "$bound"))))
		}
		return scalar(x.Type(), f)
	case *ssa.Builtin:
		return scalar(x.Type(), Int(0))
	}
	if r, ok := g.vals[v]; ok {
		return r
	}
	// parameters / free vars are pre-bound; anything else is a bug or a value
	// from a block that was skipped
	g.note("use of undefined SSA value %s (%T): havoced", v.Name(), v)
	r := freshVal(v.Type(), "undef."+v.Name())
	g.vals[v] = r
	return r
}

func (g *gen) set(v ssa.Value, x *Val) { g.vals[v] = x }

// rangeIndexTerms: current values of the element index of every range loop of
// the function (rangeindex+1), used as witness candidates for existentials.
func (g *gen) rangeIndexTerms() []*Term {
	var out []*Term
	if g.fn == nil {
		return nil
	}
	for _, b := range g.fn.Blocks {
		for _, in := range b.Instrs {
			bo, ok := in.(*ssa.BinOp)
			if !ok {
				continue
			}
			if ph, ok := bo.X.(*ssa.Phi); ok && ph.Comment == "rangeindex" {
				if v, ok := g.vals[bo]; ok && len(v.L) == 1 && len(out) < 6 {
					out = append(out, v.L[0])
				}
			}
		}
	}
	return out
}

// ---------------------------------------------------------------- source text

func (g *gen) srcText(pos token.Pos, want string) string {
	if !pos.IsValid() {
		return ""
	}
	return g.eng.sourceExprAt(pos, want)
}

func shorten(s string) string {
	s = strings.Join(strings.Fields(s), " ")
	if len(s) > 70 {
		s = s[:67] + "..."
	}
	return s
}

// ---------------------------------------------------------------- driver

func (g *gen) computeLoops() {
	fn := g.fn
	// reverse postorder ignoring back edges
	seen := map[*ssa.BasicBlock]bool{}
	var post []*ssa.BasicBlock
	var dfs func(b *ssa.BasicBlock)
	dfs = func(b *ssa.BasicBlock) {
		seen[b] = true
		for _, s := range b.Succs {
			if !seen[s] {
				dfs(s)
			}
		}
		post = append(post, b)
	}
	dfs(fn.Blocks[0])
	if fn.Recover != nil && !seen[fn.Recover] {
		// recover block is only reachable through panics; not modelled
	}
	for i := len(post) - 1; i >= 0; i-- {
		g.rpoIdx[post[i]] = len(g.rpo)
		g.rpo = append(g.rpo, post[i])
	}
	for _, b := range g.rpo {
		for _, s := range b.Succs {
			if s.Dominates(b) { // back edge b -> s
				li := g.loops[s]
				if li == nil {
					li = &loopInfo{header: s, blocks: map[*ssa.BasicBlock]bool{s: true}}
					g.loops[s] = li
				}
				li.back = append(li.back, b)
				// natural loop body
				var stack []*ssa.BasicBlock
				if !li.blocks[b] {
					li.blocks[b] = true
					stack = append(stack, b)
				}
				for len(stack) > 0 {
					x := stack[len(stack)-1]
					stack = stack[:len(stack)-1]
					for _, p := range x.Preds {
						if !li.blocks[p] && seen[p] {
							li.blocks[p] = true
							stack = append(stack, p)
						}
					}
				}
			}
		}
	}
	for h, li := range g.loops {
		li.exitsFromHeaderOnly = true
		for b := range li.blocks {
			if b != h {
				if _, ok := g.loops[b]; ok {
					li.inner = true
				}
				for _, s := range b.Succs {
					if !li.blocks[s] {
						li.exitsFromHeaderOnly = false
					}
				}
			}
		}
	}
}

func (g *gen) blocksInOrder(set map[*ssa.BasicBlock]bool) []*ssa.BasicBlock {
	var out []*ssa.BasicBlock
	for _, b := range g.rpo {
		if set == nil || set[b] {
			out = append(out, b)
		}
	}
	return out
}

func (g *gen) isBackEdge(from, to *ssa.BasicBlock) bool {
	return to.Dominates(from)
}

func (g *gen) addEdge(from, to *ssa.BasicBlock, st *State) {
	if st.reach.IsFalse() {
		return
	}
	e := &edge{from: from, vars: g.varAt, st: &State{reach: st.reach, heap: st.heap, wm: st.wm}}
	// snapshot phi operands
	pi := -1
	for i, p := range to.Preds {
		if p == from {
			pi = i
			break
		}
	}
	for _, ins := range to.Instrs {
		phi, ok := ins.(*ssa.Phi)
		if !ok {
			break
		}
		e.phis = append(e.phis, g.val(phi.Edges[pi]))
	}
	g.incoming[to] = append(g.incoming[to], e)
}

// mergeEdges merges incoming edges into one state and binds the phis.
func (g *gen) mergeEdges(b *ssa.BasicBlock, es []*edge) *State {
	if len(es) == 0 {
		return &State{reach: False, heap: NewEpochHeap("dead", Int(0)), wm: Int(0)}
	}
	st := &State{reach: es[len(es)-1].st.reach, heap: es[len(es)-1].st.heap, wm: es[len(es)-1].st.wm}
	phiVals := es[len(es)-1].phis
	for i := len(es) - 2; i >= 0; i-- {
		e := es[i]
		c := e.st.reach
		st.heap = MergeHeaps(c, e.st.heap, st.heap)
		st.wm = Ite(c, e.st.wm, st.wm)
		st.reach = Or(c, st.reach)
		nv := make([]*Val, len(phiVals))
		for j := range phiVals {
			nv[j] = g.mergePhi(c, e.phis[j], phiVals[j])
		}
		phiVals = nv
	}
	j := 0
	for _, ins := range b.Instrs {
		phi, ok := ins.(*ssa.Phi)
		if !ok {
			break
		}
		g.set(phi, phiVals[j])
		j++
	}
	return st
}

func (g *gen) mergePhi(c *Term, a, b *Val) *Val {
	if len(a.L) != len(b.L) {
		g.note("phi of values with different shapes: havoced")
		return freshVal(a.T, "phi")
	}
	return iteVal(c, a, b)
}

func (g *gen) run() {
	g.computeLoops()
	fn := g.fn
	// entry state
	st := &State{reach: True, wm: Var("wm0", SInt)}
	st.heap = NewEpochHeap("pre", st.wm)
	g.assumeGlobal(Le(Int(0), st.wm))
	for _, p := range fn.Params {
		v := freshVal(p.Type(), "p."+p.Name())
		g.set(p, v)
		g.params[p.Name()] = v
		g.assumeGlobal(rangeFacts(v))
		for i, l := range leavesOf(p.Type()) {
			if l.Kind == LKRef || l.Kind == LKSliceArr {
				g.assumeGlobal(Le(v.L[i], st.wm))
			}
		}
	}
	for _, p := range fn.FreeVars {
		v := freshVal(p.Type(), "fv."+p.Name())
		g.set(p, v)
		g.params[p.Name()] = v
		g.assumeGlobal(rangeFacts(v))
		g.assumeGlobal(Le(v.L[0], st.wm))
		if pt, ok := p.Type().Underlying().(*types.Pointer); ok {
			// captured variables are bound by the address of their cell; the
			// cell is only reachable from the creating function and its
			// closures, so calls to other functions leave it alone
			g.assumeGlobal(Lt(Int(0), v.L[0]))
			switch pt.Elem().Underlying().(type) {
			case *types.Struct, *types.Array:
			default:
				g.privCells = append(g.privCells, privCell{ref: v.L[0], t: pt.Elem()})
			}
		}
	}
	g.entry = &State{reach: True, heap: st.heap, wm: st.wm}
	// preconditions
	g.assumePre(st)
	g.incoming[fn.Blocks[0]] = []*edge{{from: nil, st: st}}
	g.execBlocks(g.blocksInOrder(nil), nil)
	if !g.sweep {
		g.checkPosts()
	} else {
		for _, rp := range g.retStates {
			g.curInstr = nil
			g.checkLocks(rp.st)
		}
	}
}

// execBlocks processes the given blocks (already in RPO). cur is the loop
// whose body is being processed (its header must not be treated as a new loop).
func (g *gen) execBlocks(blocks []*ssa.BasicBlock, cur *loopInfo) {
	for _, b := range blocks {
		if g.done[b] {
			continue
		}
		if li, ok := g.loops[b]; ok && li != cur {
			g.execLoop(li)
			continue
		}
		st := g.mergeEdges(b, g.incoming[b])
		g.execBlock(b, st, cur)
		g.done[b] = true
	}
}

func (g *gen) loopBody(li *loopInfo) []*ssa.BasicBlock {
	var out []*ssa.BasicBlock
	for _, b := range g.rpo {
		if li.blocks[b] && b != li.header {
			out = append(out, b)
		}
	}
	return out
}

type snapshot struct {
	nAss, nObl int
	names      map[string]int
}

func (g *gen) snap() snapshot {
	n := map[string]int{}
	for k, v := range g.names {
		n[k] = v
	}
	return snapshot{len(g.assumes), len(g.obligs), n}
}
func (g *gen) restore(s snapshot) {
	g.assumes = g.assumes[:s.nAss]
	g.assumeBlk = g.assumeBlk[:s.nAss]
	g.obligs = g.obligs[:s.nObl]
	g.names = s.names
}

func (g *gen) clearLoopState(li *loopInfo) {
	for b := range li.blocks {
		delete(g.done, b)
		if b != li.header {
			delete(g.incoming, b)
		}
	}
	// remove edges into header coming from inside the loop
	var keep []*edge
	for _, e := range g.incoming[li.header] {
		if e.from == nil || !li.blocks[e.from] {
			keep = append(keep, e)
		}
	}
	g.incoming[li.header] = keep
}

func (g *gen) removeExitEdges(li *loopInfo) {
	for b, es := range g.incoming {
		if li.blocks[b] {
			continue
		}
		var keep []*edge
		for _, e := range es {
			if e.from == nil || !li.blocks[e.from] {
				keep = append(keep, e)
			}
		}
		g.incoming[b] = keep
	}
}

func (g *gen) execLoop(li *loopInfo) {
	if g.searchK > 0 {
		g.searchUnroll(li, g.searchK)
		return
	}
	spec := g.loopSpec(li)
	if spec == nil && li.exitsFromHeaderOnly && !li.inner {
		if g.tryUnroll(li) {
			return
		}
	}
	g.cutLoop(li, spec)
}

const maxUnroll = 17

// searchUnroll: counterexample search only (never used for a proof). The loop is
// executed for at most K iterations and paths that need more are dropped, an
// under-approximation: every model of an obligation generated this way is a path
// through the real control flow from the function's entry, so its input values
// can be replayed. (A cut loop, by contrast, starts from an arbitrary state that
// satisfies the invariant, and its counterexamples need not be reachable.)
func (g *gen) searchUnroll(li *loopInfo, K int) {
	h := li.header
	in := append([]*edge(nil), g.incoming[h]...)
	for k := 0; k <= K; k++ {
		st := g.mergeEdges(h, in)
		g.execBlock(h, st, li)
		if k == K {
			break
		}
		for b := range li.blocks {
			if b != h {
				delete(g.done, b)
			}
		}
		g.execBlocks(g.loopBody(li), li)
		var back, keep []*edge
		for _, e := range g.incoming[h] {
			if e.from != nil && li.blocks[e.from] {
				back = append(back, e)
			} else {
				keep = append(keep, e)
			}
		}
		g.incoming[h] = keep
		for b := range li.blocks {
			if b != h {
				delete(g.incoming, b)
			}
		}
		if len(back) == 0 {
			break
		}
		in = back
	}
	// drop whatever would continue inside the loop
	for b := range li.blocks {
		if b != h {
			delete(g.incoming, b)
		}
		g.done[b] = true
	}
}

func (g *gen) tryUnroll(li *loopInfo) bool {
	h := li.header
	s := g.snap()
	entryEdges := append([]*edge(nil), g.incoming[h]...)
	savedVals := map[ssa.Value]*Val{}
	_ = savedVals
	in := entryEdges
	for k := 0; k < maxUnroll; k++ {
		st := g.mergeEdges(h, in)
		g.execBlock(h, st, li)
		ifi, ok := h.Instrs[len(h.Instrs)-1].(*ssa.If)
		if !ok {
			break
		}
		c := g.val(ifi.Cond).L[0]
		if !c.IsLit() {
			break
		}
		// which successor stays in the loop?
		tIn := li.blocks[h.Succs[0]]
		fIn := li.blocks[h.Succs[1]]
		stay := (c.IsTrue() && tIn) || (c.IsFalse() && fIn)
		if !stay {
			// exit edges have been recorded by execBlock; done
			for b := range li.blocks {
				g.done[b] = true
			}
			return true
		}
		// run the body once
		for b := range li.blocks {
			if b != h {
				delete(g.done, b)
			}
		}
		g.execBlocks(g.loopBody(li), li)
		// collect back edges
		var back []*edge
		var keep []*edge
		for _, e := range g.incoming[h] {
			if e.from != nil && li.blocks[e.from] {
				back = append(back, e)
			} else {
				keep = append(keep, e)
			}
		}
		g.incoming[h] = keep
		for b := range li.blocks {
			if b != h {
				delete(g.incoming, b)
			}
		}
		if len(back) == 0 {
			for b := range li.blocks {
				g.done[b] = true
			}
			return true
		}
		in = back
	}
	// abort: roll back and let the caller cut the loop
	g.restore(s)
	g.clearLoopState(li)
	g.removeExitEdges(li)
	g.incoming[h] = entryEdges
	return false
}

func (g *gen) cutLoop(li *loopInfo, spec *LoopSpec) {
	h := li.header
	entryEdges := append([]*edge(nil), g.incoming[h]...)
	st0 := g.mergeEdges(h, entryEdges)
	// initial phi values
	var phis []*ssa.Phi
	for _, ins := range h.Instrs {
		if p, ok := ins.(*ssa.Phi); ok {
			phis = append(phis, p)
		} else {
			break
		}
	}
	init := make([]*Val, len(phis))
	for i, p := range phis {
		init[i] = g.val(p)
	}
	// ---- discovery pass: which heap leaves does the body write?
	g.dry++
	savedW, savedAll := g.written, g.wroteAll
	g.written, g.wroteAll = map[LeafKey]leafMeta{}, false
	savedDefers := g.defers
	savedDry := g.dryAllocs
	g.dryAllocs = map[int]bool{}
	{
		ds := &State{reach: True, wm: Fresh("wm", SInt)}
		ds.heap = NewEpochHeap("disc", ds.wm)
		for i, p := range phis {
			fv := freshVal(p.Type(), "disc."+p.Name())
			fv.Addr = init[i].Addr
			g.set(p, fv)
		}
		g.incoming[h] = nil
		g.execBlock(h, ds, li)
		g.execBlocks(g.loopBody(li), li)
		g.clearLoopState(li)
		g.removeExitEdges(li)
	}
	w, wAll := g.written, g.wroteAll
	g.written, g.wroteAll = savedW, savedAll
	g.defers = savedDefers
	if savedDry != nil {
		// what the inner loop allocated was allocated inside the outer body too
		for id := range g.dryAllocs {
			savedDry[id] = true
		}
	}
	g.dryAllocs = savedDry
	g.dry--
	if g.written != nil {
		for k, m := range w {
			if pm, ok := g.written[k]; ok {
				if pm.old {
					m.old = true
				}
				for id, c := range pm.cells {
					if m.cells == nil {
						m.cells = map[int]*Term{}
					}
					m.cells[id] = c
				}
			}
			g.written[k] = m
		}
		if wAll {
			g.wroteAll = true
		}
	}
	// ---- inv-init
	for i, p := range phis {
		g.set(p, init[i])
	}
	g.curInstr = nil
	if len(entryEdges) > 0 && entryEdges[0].vars != nil {
		g.varAt = entryEdges[0].vars
	}
	entryVars := g.varAt
	g.loopEntryVals = map[string]*Val{}
	for i, p := range phis {
		if p.Comment != "" {
			g.loopEntryVals[p.Comment] = init[i]
		}
	}
	levSave := g.loopEntryVals
	iterSave := g.iterTerm
	defer func() { g.iterTerm = iterSave }()
	g.iterTerm = Int(0)
	if spec != nil {
		env := g.specEnv(st0, g.entry)
		g.bindLoopVars(env, li, phis)
		for _, inv := range spec.Invariants {
			f := g.evalBool(inv.Expr, env, true)
			o := g.oblige(st0, "inv-init", spec.Label()+":"+inv.Label, f, inv.Text)
			_ = o
		}
	}
	// ---- havoc
	if os.Getenv("HVC_DEBUG_LOOPS") != "" {
		for k := range w {
			fmt.Fprintf(os.Stderr, "loop %s writes %s old=%v\n", g.fname, k.String(), w[k].old)
		}
		fmt.Fprintf(os.Stderr, "loop %s wroteAll=%v\n", g.fname, wAll)
	}
	st := &State{reach: st0.reach, wm: st0.wm}
	if wAll {
		nw := Fresh("wm", SInt)
		g.assumeGlobal(Le(st0.wm, nw))
		st.wm = nw
		st.heap = NewEpochHeapKeeping("loop", nw, st0.heap)
		// private cells of a type that is not stored to in the loop keep their value
		for _, c := range g.privCells {
			a := &AddrInfo{Root: c.t, Known: true}
			keep := true
			for _, l := range leavesOf(c.t) {
				if _, wr := w[g.leafKeyL(a, l)]; wr {
					keep = false
				}
			}
			if !keep {
				continue
			}
			for _, l := range leavesOf(c.t) {
				if l.Kind == LKOpaque {
					continue
				}
				k := g.leafKeyL(a, l)
				v := st0.heap.Get(k, l.Sort(), SInt).Read(c.ref, nil)
				st.heap = st.heap.With(k, st.heap.Get(k, l.Sort(), SInt).Store(c.ref, nil, v))
			}
		}
	} else {
		st.heap = st0.heap
		nwl := Fresh("wm", SInt)
		g.assumeGlobal(Le(st0.wm, nwl))
		st.wm = nwl
		keys := make([]LeafKey, 0, len(w))
		for k := range w {
			keys = append(keys, k)
		}
		sort.Slice(keys, func(i, j int) bool { return keys[i].String() < keys[j].String() })
		for _, k := range keys {
			m := w[k]
			old := st0.heap.Get(k, m.sort, m.keySort)
			nb := baseHV(FreshFunName("H.loop."+sanitize(k.String())), old.sort, old.hasKey, old.keySort)
			setFacts(nb, k, nwl)
			if !m.old {
				// only objects allocated by the body were written: the objects
				// that existed when the loop was entered keep this leaf
				fb := nb
				nb = hvBelowOf(st0.wm, old, fb)
				ids := make([]int, 0, len(m.cells))
				for id := range m.cells {
					ids = append(ids, id)
				}
				sort.Ints(ids)
				for _, id := range ids {
					// a private cell of this function the body stores to: unknown content
					nb = nb.Store(m.cells[id], nil, fb.Read(m.cells[id], nil))
				}
			}
			st.heap = st.heap.With(k, nb)
		}
	}
	for i, p := range phis {
		fv := freshVal(p.Type(), "loop."+phiName(p))
		fv.Addr = init[i].Addr
		g.set(p, fv)
		g.cutPhi[p] = fv
		g.assumeGlobal(rangeFacts(fv))
		for j, l := range leavesOf(p.Type()) {
			if l.Kind == LKRef || l.Kind == LKSliceArr {
				g.assumeGlobal(Le(fv.L[j], st.wm))
			}
		}
		// automatic counter invariant: phi = init + k*step with step>0 (or <0)
		g.autoCounterInv(st, li, p, fv, init[i])
	}
	// ---- assume invariants
	g.cutting = h
	var env *SpecEnv
	g.varAt = entryVars
	g.loopEntryVals = levSave
	iterK := Fresh("loop.iter", SInt)
	g.assumeGlobal(Le(Int(0), iterK))
	g.iterTerm = iterK
	if spec != nil {
		env = g.specEnv(st, g.entry)
		g.bindLoopVars(env, li, phis)
		for _, inv := range spec.Invariants {
			f := g.evalBool(inv.Expr, env, false)
			g.assume(st, f)
		}
	}
	var variant0 *Term
	if spec != nil && spec.Decreases != nil {
		variant0 = g.evalInt(spec.Decreases, env)
	}
	// ---- body
	g.incoming[h] = nil
	hst := &State{reach: st.reach, heap: st.heap, wm: st.wm}
	g.execBlock(h, hst, li)
	g.done[h] = true
	g.execBlocks(g.loopBody(li), li)
	// ---- back edges: inv-keep, dec
	g.cutting = h
	defer func() { g.cutting = nil }()
	for _, e := range g.incoming[h] {
		if e.from == nil || !li.blocks[e.from] {
			continue
		}
		g.curInstr = nil
		for i, p := range phis {
			g.set(p, e.phis[i])
		}
		if e.vars != nil {
			g.varAt = e.vars
		}
		g.loopEntryVals = levSave
		g.iterTerm = Add(iterK, Int(1))
		if spec != nil {
			env2 := g.specEnv(e.st, g.entry)
			g.bindLoopVars(env2, li, phis)
			for _, inv := range spec.Invariants {
				f := g.evalBool(inv.Expr, env2, true)
				g.oblige(e.st, "inv-keep", spec.Label()+":"+inv.Label, f, inv.Text)
			}
			if spec.Decreases != nil {
				v1 := g.evalInt(spec.Decreases, env2)
				g.oblige(e.st, "dec", spec.Label(), And(Le(Int(0), variant0), Lt(v1, variant0)), "variant decreases and is bounded below")
			}
		}
	}
	// restore header phis to the havoced values for code after the loop
	// (exit edges were snapshotted already; values defined in the header are
	// still bound to the cut iteration, which is what dominance requires)
	for b := range li.blocks {
		g.done[b] = true
	}
	var keep []*edge
	for _, e := range g.incoming[h] {
		if e.from == nil || !li.blocks[e.from] {
			keep = append(keep, e)
		}
	}
	g.incoming[h] = keep
	// header phis must denote the arbitrary-iteration values after the loop
	// body has been processed (uses after the loop refer to them)
	// they were rebound while checking back edges: rebind.
	g.rebindPhis(li)
}

func phiName(p *ssa.Phi) string {
	if p.Comment != "" {
		return p.Comment
	}
	return p.Name()
}

func (g *gen) autoCounterInv(st *State, li *loopInfo, p *ssa.Phi, fv, init *Val) {
	if !isInteger(p.Type()) {
		return
	}
	// all back-edge operands must be p + c with the same sign of c
	sign := 0
	for i, pred := range p.Block().Preds {
		if !li.blocks[pred] {
			continue
		}
		op := p.Edges[i]
		if op == ssa.Value(p) {
			continue
		}
		bo, ok := op.(*ssa.BinOp)
		if !ok || (bo.Op != token.ADD && bo.Op != token.SUB) {
			return
		}
		c, ok := bo.Y.(*ssa.Const)
		if !ok || bo.X != ssa.Value(p) || c.Value == nil || c.Value.Kind() != constant.Int {
			return
		}
		v, _ := constant.Int64Val(c.Value)
		if bo.Op == token.SUB {
			v = -v
		}
		s := 1
		if v < 0 {
			s = -1
		}
		if v == 0 {
			continue
		}
		if sign != 0 && sign != s {
			return
		}
		sign = s
	}
	// range-style upper bound: header ends in `if phi+c < bound` with the
	// true edge staying in the loop and every back edge carrying phi+c
	if ifi, ok := li.header.Instrs[len(li.header.Instrs)-1].(*ssa.If); ok && sign > 0 {
		if cmp, ok := ifi.Cond.(*ssa.BinOp); ok && cmp.Op == token.LSS && li.blocks[li.header.Succs[0]] && !li.blocks[li.header.Succs[1]] {
			if add, ok := cmp.X.(*ssa.BinOp); ok && add.X == ssa.Value(p) && add.Op == token.ADD {
				allSame := true
				for i, pred := range p.Block().Preds {
					if li.blocks[pred] && p.Edges[i] != ssa.Value(add) {
						allSame = false
					}
				}
				_, boundIsInstr := cmp.Y.(ssa.Instruction)
				boundOutside := !boundIsInstr || !li.blocks[cmp.Y.(ssa.Instruction).Block()]
				if allSame && boundOutside {
					if c, ok := add.Y.(*ssa.Const); ok && c.Value != nil {
						step, _ := constant.Int64Val(c.Value)
						bound := g.val(cmp.Y).L[0]
						// phi + step <= bound whenever the loop was entered from
						// inside; initially phi = init: so phi <= max(init, bound - step)
						g.assume(st, Or(Eq(fv.L[0], init.L[0]), Le(Add(fv.L[0], Int(step)), bound)))
					}
				}
			}
		}
	}
	if sign > 0 {
		g.assume(st, Le(init.L[0], fv.L[0]))
	} else if sign < 0 {
		g.assume(st, Le(fv.L[0], init.L[0]))
	}
}

// havocedPhis remembers the arbitrary-iteration value of each cut-loop phi.
func (g *gen) rebindPhis(li *loopInfo) {
	for _, ins := range li.header.Instrs {
		p, ok := ins.(*ssa.Phi)
		if !ok {
			break
		}
		if v, ok := g.cutPhi[p]; ok {
			g.set(p, v)
		}
	}
}
