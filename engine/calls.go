package main

import (
	"sort"
	"fmt"
	"go/ast"
	"go/token"
	"go/types"
	"strings"

	"golang.org/x/tools/go/ssa"
)

type closureInfo struct {
	fn       *ssa.Function
	bindings []*Val
}

func (g *gen) snapshotArgs(cc *ssa.CallCommon) []*Val {
	var out []*Val
	if cc.IsInvoke() {
		out = append(out, g.val(cc.Value))
	}
	for _, a := range cc.Args {
		out = append(out, g.val(a))
	}
	return out
}

func resultType(cc *ssa.CallCommon) types.Type {
	sig := cc.Signature()
	switch sig.Results().Len() {
	case 0:
		return nil
	case 1:
		return sig.Results().At(0).Type()
	}
	return sig.Results()
}

func (g *gen) bindResult(res ssa.Value, v *Val) {
	if res != nil && v != nil {
		g.set(res, v)
		if c, ok := res.(*ssa.Call); ok {
			name := ""
			if c.Call.IsInvoke() {
				name = c.Call.Method.Name()
			} else if f, ok := c.Call.Value.(*ssa.Function); ok {
				name = f.Name()
			}
			if name != "" {
				g.lastCall[name] = v
			}
		}
	}
}

func (g *gen) call(st *State, instr ssa.Instruction, cc *ssa.CallCommon, res ssa.Value) {
	g.curCall = cc
	defer func() { g.curCall = nil }()
	rt := resultType(cc)
	lbl := g.lbl(instr.Pos(), "call", cc.String())
	if cc.IsInvoke() {
		recv := g.val(cc.Value)
		g.oblige(st, "safe:nil", lbl, Neq(recv.L[0], Int(0)), "method call on nil interface")
		key := fmt.Sprintf("(%s).%s", typeKey(cc.Value.Type()), cc.Method.Name())
		args := append([]*Val{recv}, g.argVals(cc)...)
		g.checkCallGuards(st, cc.Method.Name(), lbl, args)
		if con := g.eng.contracts.byKey[key]; con != nil {
			g.bindResult(res, g.applyContract(st, con, args, rt, lbl))
			return
		}
		if g.eng.isAssumedPure(key) {
			g.eng.useAssumption("assume-pure " + key)
			g.bindResult(res, g.freshResult(st, rt, cc.Method.Name()))
			return
		}
		if g.eng.isHeapNeutralEffect(key) {
			g.eng.useAssumption("assume heap-neutral effect " + key)
			g.effect(st, "call of "+key, nil)
			g.bindResult(res, g.freshResult(st, rt, cc.Method.Name()))
			return
		}
		g.unknownCall(st, key, args, rt, res)
		return
	}
	switch callee := cc.Value.(type) {
	case *ssa.Builtin:
		g.builtin(st, instr, callee, cc, res)
		return
	case *ssa.Function:
		g.staticCall(st, callee, g.argVals(cc), rt, res, lbl)
		return
	case *ssa.MakeClosure:
		fn := callee.Fn.(*ssa.Function)
		var bs []*Val
		for _, b := range callee.Bindings {
			bs = append(bs, g.val(b))
		}
		g.closureCall(st, fn, bs, g.argVals(cc), rt, res, lbl)
		return
	}
	// call through a package-level function variable (e.g. colors.Red)
	if ld, ok := cc.Value.(*ssa.UnOp); ok {
		if gl, ok := ld.X.(*ssa.Global); ok {
			key := gl.RelString(nil)
			if g.eng.isAssumedPure(key) {
				g.eng.useAssumption("assume-pure " + key + " (package-level function value, never nil)")
				g.bindResult(res, g.freshResult(st, rt, gl.Name()))
				return
			}
		}
	}
	// call through a function-typed struct field declared heap-neutral (e.g. a console callback)
	if ld, ok := cc.Value.(*ssa.UnOp); ok {
		if fa, ok := ld.X.(*ssa.FieldAddr); ok {
			st0 := fa.X.Type().Underlying().(*types.Pointer).Elem()
			key := "field:" + typeKey(st0) + "." + fieldPath(st0, fa.Field)
			if g.eng.isHeapNeutralEffect(key) {
				g.eng.useAssumption("calls through " + key + " are heap-neutral effects and the field is never nil")
				g.effect(st, "call through "+key, nil)
				g.bindResult(res, g.freshResult(st, rt, "cb"))
				return
			}
		}
	}
	// dynamic function value
	fv := g.val(cc.Value)
	g.oblige(st, "safe:nil", lbl, Neq(fv.L[0], Int(0)), "call of nil function value")
	if ci, ok := g.closures[fv.L[0].id]; ok {
		g.closureCall(st, ci.fn, ci.bindings, g.argVals(cc), rt, res, lbl)
		return
	}
	g.unknownCall(st, "dynamic call "+cc.Value.Name(), g.argVals(cc), rt, res)
}

func (g *gen) argVals(cc *ssa.CallCommon) []*Val {
	var out []*Val
	for _, a := range cc.Args {
		out = append(out, g.val(a))
	}
	return out
}

func (g *gen) freshResult(st *State, rt types.Type, hint string) *Val {
	if rt == nil {
		return nil
	}
	return g.freshIn(st, rt, "r."+hint)
}

func (g *gen) closureCall(st *State, fn *ssa.Function, bindings, args []*Val, rt types.Type, res ssa.Value, lbl string) {
	key := fn.String()
	if con := g.eng.contracts.byKey[key]; con != nil {
		all := append(append([]*Val{}, args...), bindings...)
		if con.Decl.Recv != nil {
			// contract headers of closures repeat the enclosing method's receiver for naming only
			all = append([]*Val{nil}, all...)
		}
		g.bindResult(res, g.applyContract(st, con, all, rt, lbl))
		return
	}
	if g.eng.heapPure(fn) {
		g.bindResult(res, g.freshResult(st, rt, fn.Name()))
		return
	}
	g.unknownCall(st, key, append(args, bindings...), rt, res)
}

func (g *gen) staticCall(st *State, fn *ssa.Function, args []*Val, rt types.Type, res ssa.Value, lbl string) {
	key := fn.String()
	g.checkCallGuards(st, fn.Name(), lbl, args)
	if con := g.eng.contracts.byKey[key]; con != nil {
		g.eng.noteContractUse(g.fname, con)
		g.bindResult(res, g.applyContract(st, con, args, rt, lbl))
		return
	}
	if len(args) > 0 && g.mutexOp(st, key, args[0], lbl) {
		return
	}
	if g.syncMapOp(st, key, args, rt, res, lbl) {
		return
	}
	if g.eng.isAssumedPure(key) {
		g.eng.useAssumption("assume-pure " + key)
		g.bindResult(res, g.freshResult(st, rt, fn.Name()))
		return
	}
	if g.eng.isHeapNeutralEffect(key) {
		g.eng.useAssumption("assume heap-neutral effect " + key)
		g.effect(st, "call of "+key, nil)
		g.bindResult(res, g.freshResult(st, rt, fn.Name()))
		return
	}
	if fn.Blocks != nil && g.eng.heapPure(fn) {
		// inferred by the effect analysis (checked, not assumed)
		g.bindResult(res, g.freshResult(st, rt, fn.Name()))
		return
	}
	g.unknownCall(st, key, args, rt, res)
}

// unknownCall: a callee without contract. Repo-internal or taking references
// to modelled memory: the whole heap is havoced. External with only scalar /
// string / []byte arguments: only the byte contents are havoced.
func (g *gen) unknownCall(st *State, key string, args []*Val, rt types.Type, res ssa.Value) {
	external := !strings.Contains(key, "Havoc/") || strings.Contains(key, "Havoc/pkg/profile/yaotl")
	deep := !external
	for _, a := range args {
		if a == nil {
			continue
		}
		switch u := a.T.Underlying().(type) {
		case *types.Pointer, *types.Interface, *types.Signature, *types.Map, *types.Chan:
			deep = true
		case *types.Slice:
			switch u.Elem().Underlying().(type) {
			case *types.Basic:
			default:
				deep = true
			}
		case *types.Struct:
			deep = true
		}
	}
	g.effect(st, "call of "+shortName(key), nil)
	if deep {
		g.note("call without contract: %s — heap havoced", key)
		g.havocAll(st, "call")
	} else {
		g.note("external call without contract: %s — only byte-slice arguments havoced", key)
		g.eng.useAssumption("external " + key + " touches only memory reachable from its arguments")
		for _, a := range args {
			if a != nil && isSlice(a.T) {
				g.havocElems(st, a.Arr(), a.T.Underlying().(*types.Slice).Elem(), "ext")
			}
		}
	}
	g.bindResult(res, g.freshResult(st, rt, "unk"))
}

// ---------------------------------------------------------------- contracts

func (g *gen) assumePre(st *State) {
	if g.con == nil {
		return
	}
	env := g.specEnv(st, st)
	for _, c := range g.con.Requires {
		f := g.evalBool(c.Expr, env, false)
		g.assumeGlobal(f)
		g.preTerms = append(g.preTerms, f)
		var split func(t *Term)
		split = func(t *Term) {
			if t.Op == "and" {
				for _, a := range t.Args {
					split(a)
				}
				return
			}
			g.preConj[t.id] = true
		}
		split(f)
	}
	for _, c := range g.con.Guards {
		f := g.evalBool(c.Expr, env, true)
		g.guards = append(g.guards, guardSpec{label: c.Label, term: f, text: c.Text})
	}
}

type guardSpec struct {
	label string
	term  *Term
	text  string
}

// effect: an observable effect happens here; it must be dominated by every
// declared guard. exempt is a condition under which the write is invisible
// (memory allocated during this call).
func (g *gen) effect(st *State, what string, exempt *Term) {
	if g.dry > 0 || len(g.guards) == 0 {
		return
	}
	for _, gd := range g.guards {
		goal := gd.term
		if exempt != nil {
			goal = Or(exempt, gd.term)
		}
		g.oblige(st, "guard", gd.label, goal, "effect ("+what+") reachable only when: "+gd.text)
	}
}

func (g *gen) bindResults(env *SpecEnv, con *Contract, results []*Val, st *State) {
	names := contractResultNames(con)
	for i, r := range results {
		if i < len(names) && names[i] != "" && names[i] != "_" {
			env.vars[names[i]] = &SV{V: r, St: st}
		}
	}
	if len(results) == 1 {
		env.vars["result"] = &SV{V: results[0], St: st}
	}
}

func (g *gen) checkPosts() {
	if g.con == nil {
		return
	}
	for i, rp := range g.retStates {
		g.curInstr = nil
		env := g.specEnv(rp.st, g.entry)
		if rp.vars != nil {
			save := g.varAt
			g.varAt = rp.vars
			g.bindLocals(env)
			g.varAt = save
		}
		g.bindResults(env, g.con, rp.results, rp.st)
		suffix := ""
		if len(g.retStates) > 1 {
			suffix = fmt.Sprintf("@ret%d", i+1)
		}
		_ = suffix
		for _, c := range g.con.Ensures {
			f := g.evalBool(c.Expr, env, true)
			o := g.oblige(rp.st, "post", c.Label, f, c.Text)
			if o != nil {
				o.Watch = map[string]*Term{}
				for ri, rv := range rp.results {
					if len(rv.L) == 1 {
						o.Watch[fmt.Sprintf("ret%d", ri)] = rv.L[0]
					}
				}
			}
			if o != nil && rp.pos.IsValid() {
				p := g.eng.fset.Position(rp.pos)
				o.Pos = fmt.Sprintf("%s:%d", p.Filename, p.Line)
			}
		}
		// ghost definitions: the body itself must leave the ghost untouched
		for _, gd := range g.con.GhostDefs {
			envc := g.specEnv(rp.st, g.entry)
			g.bindResults(envc, g.con, rp.results, rp.st)
			cur := envc.eval(gd.LHS)
			envo := g.specEnv(g.entry, g.entry)
			ne := len(g.specErrors)
			old := envo.eval(gd.LHS)
			if len(g.specErrors) > ne {
				// the ghost belongs to the result (e.g. a constructor): nothing to compare with
				g.specErrors = g.specErrors[:ne]
				continue
			}
			if cur != nil && old != nil && len(cur.V.L) == 1 && len(old.V.L) == 1 {
				g.oblige(rp.st, "ghost-def", gd.Text, Eq(cur.V.L[0], old.V.L[0]), "a function that defines a ghost update must not change that ghost through its callees")
			}
		}
		// lock pairing: every mutex reachable through a known leaf has the
		// same held state as at entry
		g.checkLocks(rp.st)
	}
}

// applyContract: assert requires, havoc the frame, assume ensures.
func (g *gen) applyContract(st *State, con *Contract, args []*Val, rt types.Type, lbl string) *Val {
	pre := &State{reach: st.reach, heap: st.heap, wm: st.wm}
	env := &SpecEnv{g: g, vars: map[string]*SV{}, cur: pre, old: pre, pkg: g.eng.typesPkg(con.Pkg)}
	names := contractParamNames(con)
	for i, n := range names {
		if i < len(args) && n != "" && n != "_" && args[i] != nil {
			env.vars[n] = &SV{V: args[i], St: pre}
		}
	}
	short := con.Key
	if i := strings.LastIndex(short, "/"); i >= 0 {
		short = short[i+1:]
	}
	for _, c := range con.Requires {
		f := g.evalBool(c.Expr, env, true)
		g.oblige(st, "pre", short+":"+c.Label+"@"+lbl, f, c.Text)
	}
	if !con.Pure {
		g.effect(st, "call of "+short, nil)
	}
	// the callee's frame must lie inside this function's own frame
	g.checkCalleeFrame(st, env, con, lbl)
	// frame
	if con.ModAll {
		g.havocAll(st, "call")
	} else {
		{
			// the callee may allocate (a "pure" function may still return fresh memory)
			nw := Fresh("wm", SInt)
			g.assumeGlobal(Le(st.wm, nw))
			st.wm = nw
		}
		for _, m := range con.Modifies {
			g.havocLvalue(st, env, m)
		}
	}
	// results
	var resV *Val
	var results []*Val
	if rt != nil {
		resV = g.freshIn(st, rt, "r."+shortName(con.Key))
		if tup, ok := rt.(*types.Tuple); ok {
			for i := 0; i < tup.Len(); i++ {
				results = append(results, fieldOf(resV, i))
			}
		} else {
			results = []*Val{resV}
		}
	}
	post := &State{reach: st.reach, heap: st.heap, wm: st.wm}
	env2 := &SpecEnv{g: g, vars: env.vars, cur: post, old: pre, pkg: env.pkg}
	g.bindResults(env2, con, results, post)
	for _, gd := range con.GhostDefs {
		g.havocLvalue(st, env, gd.LHS)
	}
	post = &State{reach: st.reach, heap: st.heap, wm: st.wm}
	env2.cur = post
	for _, gd := range con.GhostDefs {
		l := env2.eval(gd.LHS)
		r := env2.eval(gd.RHS)
		if l != nil && r != nil && l.V != nil && r.V != nil && len(l.V.L) == 1 && len(r.V.L) == 1 {
			g.assume(st, Eq(l.V.L[0], r.V.L[0]))
		}
	}
	for _, c := range con.Ensures {
		if c.Local {
			continue
		}
		// a clause that mentions the callee's locals cannot be evaluated (or
		// assumed) at a call site: it is skipped there
		ne := len(g.specErrors)
		f := g.evalBool(c.Expr, env2, false)
		if len(g.specErrors) > ne {
			g.specErrors = g.specErrors[:ne]
			continue
		}
		g.assume(st, f)
	}
	if con.Trusted {
		g.eng.useAssumption("trusted contract " + con.Key)
	}
	return resV
}

func shortName(key string) string {
	if i := strings.LastIndex(key, "."); i >= 0 {
		return key[i+1:]
	}
	return key
}

// havocLvalue havocs the heap leaves denoted by a modifies target.
//   x.f        all leaves of field f of the object x points to
//   elems(s)   the element contents of slice s' backing array
//   *p         the whole object p points to
func (g *gen) havocLvalue(st *State, env *SpecEnv, m ast.Expr) {
	if c, ok := m.(*ast.CallExpr); ok {
		if id, ok := c.Fun.(*ast.Ident); ok && id.Name == "elems" && len(c.Args) == 1 {
			sv := env.eval(c.Args[0])
			if sv == nil || sv.V == nil || !isSlice(sv.V.T) {
				env.fail("elems() of non-slice in modifies")
				return
			}
			g.havocElems(st, sv.V.Arr(), sv.V.T.Underlying().(*types.Slice).Elem(), "mod")
			return
		}
		if id, ok := c.Fun.(*ast.Ident); ok && id.Name == "mapof" && len(c.Args) == 1 {
			sv := env.eval(c.Args[0])
			if sv == nil || sv.V == nil || !isMap(sv.V.T) {
				env.fail("mapof() of non-map in modifies")
				return
			}
			g.havocMap(st, sv.V.L[0], sv.V.T.Underlying().(*types.Map))
			return
		}
		// allof(T.field): that field of every object of struct type T
		// allelems(T): the contents of every array with element type T
		if id, ok := c.Fun.(*ast.Ident); ok && (id.Name == "allof" || id.Name == "allelems") && len(c.Args) == 1 {
			g.havocTypeWide(st, env, id.Name, c.Args[0])
			return
		}
	}
	a := env.evalAddr(m)
	if a == nil || a.V == nil {
		g.note("modifies target not understood: %s — heap havoced", exprString(m))
		g.havocAll(st, "mod")
		return
	}
	p := a.V
	et := p.T.Underlying().(*types.Pointer).Elem()
	if p.Addr == nil || !p.Addr.Known {
		g.havocAll(st, "mod")
		return
	}
	for _, l := range leavesOf(et) {
		if l.Kind == LKOpaque {
			continue
		}
		k := g.leafKeyL(p.Addr, l)
		g.recordWrite(k, l.Sort())
		hv := st.heap.Get(k, l.Sort(), SInt)
		if p.Addr.Elem {
			nv := Fresh("mod", l.Sort())
			st.heap = st.heap.With(k, hv.Store(p.L[0], p.Addr.Idx, nv))
		} else {
			st.heap = st.heap.With(k, hv.HavocAt(p.L[0], "H.mod."+sanitize(k.String()), st.wm))
		}
	}
}

func (g *gen) havocMap(st *State, m *Term, mt *types.Map) {
	ks, ok := mapKeySort(mt)
	if !ok {
		return
	}
	k := mapLeafKey(mt, "has")
	g.recordWrite2(k, SBool, ks)
	st.heap = st.heap.With(k, st.heap.Get(k, SBool, ks).HavocAt(m, "H.mod.has", st.wm))
	for _, l := range leavesOf(mt.Elem()) {
		if l.Kind == LKOpaque {
			continue
		}
		lk := mapLeafKeyL(mt, l)
		g.recordWrite2(lk, l.Sort(), ks)
		st.heap = st.heap.With(lk, st.heap.Get(lk, l.Sort(), ks).HavocAt(m, "H.mod.val", st.wm))
	}
}

// checkFrame: in a function under a functional contract every store must hit
// either memory allocated during the call or a declared modifies target.
func (g *gen) checkFrame(st *State, p *Val, et types.Type, pos token.Pos) {
	if g.con == nil || g.sweep || g.con.ModAll || g.dry > 0 {
		return
	}
	if p.Addr == nil || !p.Addr.Known {
		return
	}
	allowed := Lt(g.entry.wm, p.L[0]) // fresh object
	env := g.specEnv(g.entry, g.entry)
	for _, m := range g.con.Modifies {
		if c, ok := m.(*ast.CallExpr); ok {
			if id, ok := c.Fun.(*ast.Ident); ok && id.Name == "elems" {
				sv := env.eval(c.Args[0])
				if sv != nil && sv.V != nil && isSlice(sv.V.T) && p.Addr.Elem &&
					typeKey(p.Addr.Root) == typeKey(sv.V.T.Underlying().(*types.Slice).Elem()) {
					allowed = Or(allowed, Eq(p.L[0], sv.V.Arr()))
				}
				continue
			}
			if id, ok := c.Fun.(*ast.Ident); ok && id.Name == "mapof" {
				continue
			}
			if id, ok := c.Fun.(*ast.Ident); ok && id.Name == "allof" && len(c.Args) == 1 {
				if sel, ok := c.Args[0].(*ast.SelectorExpr); ok {
					if t := env.resolveType(sel.X); t != nil && !p.Addr.Elem && typeKey(t) == addrTypeKey(p.Addr) &&
						(p.Addr.Path == sel.Sel.Name || strings.HasPrefix(p.Addr.Path, sel.Sel.Name+".")) {
						allowed = True
					}
				}
				continue
			}
			if id, ok := c.Fun.(*ast.Ident); ok && id.Name == "allelems" && len(c.Args) == 1 {
				if t := env.resolveType(c.Args[0]); t != nil && p.Addr.Elem && typeKey(t) == addrTypeKey(p.Addr) {
					allowed = True
				}
				continue
			}
		}
		a := env.evalAddr(m)
		if a == nil || a.V == nil || a.V.Addr == nil || !a.V.Addr.Known {
			continue
		}
		ma := a.V.Addr
		if ma.Elem != p.Addr.Elem || typeKey(ma.Root) != typeKey(p.Addr.Root) {
			continue
		}
		// path of the store must be inside the modifies path
		if p.Addr.Path == ma.Path || strings.HasPrefix(p.Addr.Path, ma.Path+".") || ma.Path == "" {
			c := Eq(p.L[0], a.V.L[0])
			if ma.Elem {
				c = And(c, Eq(p.Addr.Idx, ma.Idx))
			}
			allowed = Or(allowed, c)
		}
	}
	g.oblige(st, "frame", g.lbl(pos, "", "store"), allowed, "store outside the declared modifies clause")
}

// ---------------------------------------------------------------- mutexes (ghost held state)

func (g *gen) heldKey(p *Val) (LeafKey, bool) {
	if p.Addr == nil || !p.Addr.Known {
		return LeafKey{}, false
	}
	return LeafKey{Type: typeKey(p.Addr.Root), Path: joinPath(p.Addr.Path, "$held"), Elem: p.Addr.Elem}, true
}

func (g *gen) heldRead(st *State, p *Val) *Term {
	k, ok := g.heldKey(p)
	if !ok {
		return Fresh("held", SBool)
	}
	var idx *Term
	if p.Addr.Elem {
		idx = p.Addr.Idx
	}
	return st.heap.Get(k, SBool, SInt).Read(p.L[0], idx)
}

func (g *gen) heldWrite(st *State, p *Val, v *Term) {
	k, ok := g.heldKey(p)
	if !ok {
		g.note("lock operation on mutex of unknown location")
		return
	}
	var idx *Term
	if p.Addr.Elem {
		idx = p.Addr.Idx
	}
	g.recordWrite(k, SBool)
	g.lockKeys[k] = append(g.lockKeys[k], lockUse{p: p})
	st.heap = st.heap.With(k, st.heap.Get(k, SBool, SInt).Store(p.L[0], idx, v))
}

type lockUse struct{ p *Val }

func (g *gen) checkLocks(st *State) {
	seen := map[string]bool{}
	for k, uses := range g.lockKeys {
		for _, u := range uses {
			var idx *Term
			if u.p.Addr.Elem {
				idx = u.p.Addr.Idx
			}
			id := fmt.Sprintf("%s/%d", k.String(), u.p.L[0].id)
			if seen[id] {
				continue
			}
			seen[id] = true
			now := st.heap.Get(k, SBool, SInt).Read(u.p.L[0], idx)
			was := g.entry.heap.Get(k, SBool, SInt).Read(u.p.L[0], idx)
			path := strings.TrimSuffix(k.Path, ".$held")
			path = strings.TrimSuffix(path, "$held")
			g.oblige(st, "lock", shortType(k.Type)+"."+path, Eq(now, was), "mutex held state at exit differs from entry")
		}
	}
}

func shortType(s string) string {
	if i := strings.LastIndex(s, "/"); i >= 0 {
		return s[i+1:]
	}
	return s
}

func (g *gen) mutexOp(st *State, name string, recv *Val, lbl string) bool {
	switch name {
	case "(*sync.Mutex).Lock", "(*sync.RWMutex).Lock":
		// Lock on a held mutex blocks forever: that is a wedge, reported
		g.oblige(st, "lock-reentry", lbl, Not(g.heldRead(st, recv)), "Lock on a mutex this goroutine already holds")
		g.heldWrite(st, recv, True)
		return true
	case "(*sync.Mutex).Unlock", "(*sync.RWMutex).Unlock":
		g.oblige(st, "safe:unlock", lbl, g.heldRead(st, recv), "Unlock of a mutex that is not held (fatal error)")
		g.heldWrite(st, recv, False)
		return true
	case "(*sync.RWMutex).RLock", "(*sync.RWMutex).RUnlock":
		return true
	case "(*sync.Mutex).TryLock":
		return false
	}
	return false
}

// ---------------------------------------------------------------- builtins

func (g *gen) builtin(st *State, instr ssa.Instruction, b *ssa.Builtin, cc *ssa.CallCommon, res ssa.Value) {
	args := g.argVals(cc)
	lbl := g.lbl(instr.Pos(), "call", cc.String())
	switch b.Name() {
	case "append", "copy", "delete":
		// contracts may guard these by name (e.g. what is appended to a result list)
		g.checkCallGuards(st, b.Name(), lbl, args)
	}
	switch b.Name() {
	case "len":
		a := args[0]
		switch a.T.Underlying().(type) {
		case *types.Slice:
			g.bindResult(res, scalar(types.Typ[types.Int], a.Len()))
		case *types.Basic:
			g.bindResult(res, scalar(types.Typ[types.Int], StrLen(a.L[0])))
		case *types.Map:
			r := App("map.len", SInt, a.L[0], Fresh("t", SInt))
			g.assumeGlobal(Le(Int(0), r))
			g.bindResult(res, scalar(types.Typ[types.Int], r))
		case *types.Pointer: // *array
			arr := a.T.Underlying().(*types.Pointer).Elem().Underlying().(*types.Array)
			g.bindResult(res, scalar(types.Typ[types.Int], Int(arr.Len())))
		case *types.Array:
			g.bindResult(res, scalar(types.Typ[types.Int], Int(a.T.Underlying().(*types.Array).Len())))
		default:
			r := Fresh("len", SInt)
			g.assumeGlobal(Le(Int(0), r))
			g.bindResult(res, scalar(types.Typ[types.Int], r))
		}
	case "cap":
		a := args[0]
		if isSlice(a.T) {
			g.bindResult(res, scalar(types.Typ[types.Int], a.Cap()))
		} else {
			r := Fresh("cap", SInt)
			g.assumeGlobal(Le(Int(0), r))
			g.bindResult(res, scalar(types.Typ[types.Int], r))
		}
	case "copy":
		dst, src := args[0], args[1]
		var n *Term
		if isString(src.T) {
			sl := StrLen(src.L[0])
			n = Ite(Le(dst.Len(), sl), dst.Len(), sl)
			g.checkElemsFrame(st, dst, instr.Pos())
			g.havocElems(st, dst.Arr(), dst.T.Underlying().(*types.Slice).Elem(), "copystr")
		} else {
			n = Ite(Le(dst.Len(), src.Len()), dst.Len(), src.Len())
			et := dst.T.Underlying().(*types.Slice).Elem()
			g.checkElemsFrame(st, dst, instr.Pos())
			a := &AddrInfo{Root: et, Known: true, Elem: true}
			srcHeap := st.heap
			for _, l := range leavesOf(et) {
				if l.Kind == LKOpaque {
					continue
				}
				k := g.leafKeyL(a, l)
				g.recordWrite(k, l.Sort())
				hv := st.heap.Get(k, l.Sort(), SInt)
				shv := srcHeap.Get(k, l.Sort(), SInt)
				st.heap = st.heap.With(k, hv.CopyFrom(dst.Arr(), dst.Off(), n, shv, src.Arr(), src.Off()))
			}
		}
		g.bindResult(res, scalar(types.Typ[types.Int], n))
	case "append":
		g.bindResult(res, g.appendOp(st, instr, args, res))
	case "delete":
		m := args[0]
		mt := m.T.Underlying().(*types.Map)
		kv := args[1]
		if isInterface(mt.Key()) && !isInterface(kv.T) {
			kv = g.makeIface(st, kv, mt.Key())
		}
		g.mapDelete(st, m.L[0], mt, kv.L[0])
	case "panic":
		g.oblige(st, "safe:panic", lbl, False, "explicit panic reachable")
	case "print", "println":
	case "recover":
		g.bindResult(res, g.freshOf(res.Type(), "recover"))
	case "min", "max":
		cur := args[0].L[0]
		for _, a := range args[1:] {
			if b.Name() == "min" {
				cur = Ite(Le(cur, a.L[0]), cur, a.L[0])
			} else {
				cur = Ite(Ge(cur, a.L[0]), cur, a.L[0])
			}
		}
		g.bindResult(res, scalar(res.Type(), cur))
	case "close":
	default:
		g.note("unsupported builtin %s", b.Name())
		if res != nil {
			g.bindResult(res, g.freshIn(st, res.Type(), b.Name()))
		}
	}
}

func (g *gen) checkElemsFrame(st *State, dst *Val, pos token.Pos) {
	if g.con == nil || g.sweep || g.con.ModAll || g.dry > 0 {
		return
	}
	et := dst.T.Underlying().(*types.Slice).Elem()
	p := &Val{T: types.NewPointer(et), L: []*Term{dst.Arr()}, Addr: &AddrInfo{Root: et, Elem: true, Idx: dst.Off(), Known: true}}
	// empty destination writes nothing
	save := st.reach
	st2 := &State{reach: And(st.reach, Lt(Int(0), dst.Len())), heap: st.heap, wm: st.wm}
	_ = save
	g.checkFrameElems(st2, p, pos, nil)
}

func (g *gen) checkFrameElems(st *State, p *Val, pos token.Pos, count *Term) {
	allowed := Lt(g.entry.wm, p.L[0])
	env := g.specEnv(g.entry, g.entry)
	for _, m := range g.con.Modifies {
		if c, ok := m.(*ast.CallExpr); ok {
			if id, ok := c.Fun.(*ast.Ident); ok && id.Name == "elems" {
				sv := env.eval(c.Args[0])
				if sv != nil && sv.V != nil && isSlice(sv.V.T) &&
					typeKey(p.Addr.Root) == typeKey(sv.V.T.Underlying().(*types.Slice).Elem()) {
					allowed = Or(allowed, Eq(p.L[0], sv.V.Arr()))
				}
				continue
			}
			if id, ok := c.Fun.(*ast.Ident); ok && id.Name == "allelems" && len(c.Args) == 1 {
				if t := env.resolveType(c.Args[0]); t != nil && typeKey(t) == addrTypeKey(p.Addr) {
					allowed = True
				}
				continue
			}
		}
		// single element target covers a bulk write of exactly that slot
		if ix, ok := m.(*ast.IndexExpr); ok && count != nil {
			_ = ix
			a := env.evalAddr(m)
			if a != nil && a.V != nil && a.V.Addr != nil && a.V.Addr.Known && a.V.Addr.Elem && typeKey(a.V.Addr.Root) == typeKey(p.Addr.Root) {
				allowed = Or(allowed, And(Eq(p.L[0], a.V.L[0]), Eq(p.Addr.Idx, a.V.Addr.Idx), Le(count, Int(1))))
			}
		}
	}
	g.oblige(st, "frame", g.lbl(pos, "", "copy/append"), allowed, "bulk write outside the declared modifies clause")
}

// appendOp models append(s, t...) as Go specifies it: in place when the
// capacity suffices, otherwise into a fresh array (contents copied).
func (g *gen) appendOp(st *State, instr ssa.Instruction, args []*Val, res ssa.Value) *Val {
	s, t := args[0], args[1]
	rt := res.Type()
	et := rt.Underlying().(*types.Slice).Elem()
	var tl *Term
	strSrc := isString(t.T)
	if strSrc {
		tl = StrLen(t.L[0])
	} else {
		tl = t.Len()
	}
	newLen := Add(s.Len(), tl)
	if tl.IsLit() && tl.I.Sign() == 0 {
		return &Val{T: rt, L: s.L}
	}
	inPlace := Le(newLen, s.Cap())
	// fresh array for the growing case
	pre := st.heap
	nr := g.alloc(st, "app")
	newCap := Fresh("appcap", SInt)
	g.assumeGlobal(And(Le(newLen, newCap), Le(newCap, IntBig(maxLen))))
	arr := Ite(inPlace, s.Arr(), nr)
	off := Ite(inPlace, s.Off(), Int(0))
	cp := Ite(inPlace, s.Cap(), newCap)
	// a nil/empty-cap slice always reallocates; in-place writes must be framed
	if g.con != nil && !g.sweep && !g.con.ModAll && g.dry == 0 {
		p := &Val{T: types.NewPointer(et), L: []*Term{s.Arr()}, Addr: &AddrInfo{Root: et, Elem: true, Idx: Add(s.Off(), s.Len()), Known: true}}
		st2 := &State{reach: And(st.reach, inPlace), heap: st.heap, wm: st.wm}
		g.checkFrameElems(st2, p, instr.Pos(), tl)
	}
	a := &AddrInfo{Root: et, Known: true, Elem: true}
	for _, l := range leavesOf(et) {
		if l.Kind == LKOpaque {
			continue
		}
		k := g.leafKeyL(a, l)
		g.recordWrite(k, l.Sort())
		hv := st.heap.Get(k, l.Sort(), SInt)
		old := pre.Get(k, l.Sort(), SInt)
		// 1. (growing case) copy the old contents into the new array
		h1 := hv.CopyFrom(nr, Int(0), Ite(inPlace, Int(0), s.Len()), old, s.Arr(), s.Off())
		// 2. write the appended elements after them
		var h2 *HV
		if strSrc {
			h2 = h1.HavocAt(arr, "appstr", st.wm)
			// (coarse: appending string bytes havocs the target array)
		} else {
			h2 = h1.CopyFrom(arr, Add(off, s.Len()), tl, old, t.Arr(), t.Off())
		}
		st.heap = st.heap.With(k, h2)
	}
	return sliceVal(rt, arr, off, newLen, cp)
}

// ---------------------------------------------------------------- go / defer

func (g *gen) goStmt(st *State, x *ssa.Go) {
	// The spawned function runs concurrently; no interleaving semantics.
	// Its preconditions (if it has a contract) are checked here.
	g.note("go statement: spawned function verified separately, no interleaving semantics")
	g.effect(st, "go statement", nil)
	// starting a goroutine is a call site for guard-call clauses (callee: the spawned function's name)
	switch f := x.Call.Value.(type) {
	case *ssa.Function:
		g.checkCallGuards(st, f.Name(), g.lbl(x.Pos(), "go", x.Call.String()), g.argVals(&x.Call))
	case *ssa.MakeClosure:
		if fn, ok := f.Fn.(*ssa.Function); ok {
			g.checkCallGuards(st, fn.Name(), g.lbl(x.Pos(), "go", x.Call.String()), g.argVals(&x.Call))
		}
	}
	if fn, ok := x.Call.Value.(*ssa.Function); ok {
		if con := g.eng.contracts.byKey[fn.String()]; con != nil {
			pre := &State{reach: st.reach, heap: st.heap, wm: st.wm}
			env := &SpecEnv{g: g, vars: map[string]*SV{}, cur: pre, old: pre, pkg: g.eng.typesPkg(con.Pkg)}
			names := contractParamNames(con)
			args := g.argVals(&x.Call)
			for i, n := range names {
				if i < len(args) {
					env.vars[n] = &SV{V: args[i], St: pre}
				}
			}
			for _, c := range con.Requires {
				g.oblige(st, "pre", shortName(con.Key)+":"+c.Label+"@go", g.evalBool(c.Expr, env, true), c.Text)
			}
		}
	}
}

func (g *gen) runDefers(st *State) {
	for i := len(g.defers) - 1; i >= 0; i-- {
		d := g.defers[i]
		// a defer inside a conditional/loop may or may not have been pushed:
		// only top-level (entry-dominating) defers are modelled exactly
		if !d.Block().Dominates(g.curInstr.Block()) {
			g.note("conditional defer: effects havoced")
			g.havocAll(st, "defer")
			continue
		}
		args := g.deferArgs[d]
		cc := &d.Call
		rt := resultType(cc)
		lbl := g.lbl(d.Pos(), "call", cc.String())
		if cc.IsInvoke() {
			g.unknownCall(st, "deferred invoke "+cc.Method.Name(), args, rt, nil)
			continue
		}
		switch callee := cc.Value.(type) {
		case *ssa.Function:
			name := callee.String()
			if len(args) > 0 && g.mutexOp(st, name, args[0], lbl) {
				continue
			}
			g.staticCall(st, callee, args, rt, nil, lbl)
		case *ssa.MakeClosure:
			fn := callee.Fn.(*ssa.Function)
			var bs []*Val
			for _, b := range callee.Bindings {
				bs = append(bs, g.val(b))
			}
			g.closureCall(st, fn, bs, args, rt, nil, lbl)
		case *ssa.Builtin:
			// e.g. defer close(ch): ignore
		default:
			g.unknownCall(st, "deferred dynamic call", args, rt, nil)
		}
	}
}

// ---------------------------------------------------------------- loops specs

func (g *gen) loopSpec(li *loopInfo) *LoopSpec {
	if g.con == nil {
		return nil
	}
	hdr, ord := g.eng.loopHeaderText(g.fn, li)
	for _, l := range g.con.Loops {
		if l.Header == hdr && l.Ordinal == ord {
			l.used = true
			return l
		}
	}
	return nil
}

func (g *gen) bindLoopVars(env *SpecEnv, li *loopInfo, phis []*ssa.Phi) {
	g.bindLocals(env)
	for name, v := range g.varAt {
		if strings.HasPrefix(name, "&") {
			continue
		}
		if val, ok := g.vals[v]; ok {
			if _, isParam := env.vars[name]; !isParam {
				env.vars[name] = &SV{V: val}
			}
		} else if c, ok := v.(*ssa.Const); ok {
			env.vars[name] = &SV{V: g.constVal(c)}
		}
	}
	for _, p := range phis {
		if p.Comment != "" {
			env.vars[p.Comment] = &SV{V: g.val(p)}
		}
	}
	// range loops: the hidden index is "rangeindex"; the user-visible index
	// variable i equals rangeindex+1 inside the body. Expose idx__ as the
	// number of completed iterations.
	for _, p := range phis {
		if p.Comment == "rangeindex" {
			env.vars["idx__"] = &SV{V: scalar(types.Typ[types.Int], Add(g.val(p).L[0], Int(1)))}
		}
	}
}

// checkCallGuards: "guard-call" clauses — a call of a function whose name
// matches the pattern is only reachable when the condition holds. The
// condition may mention parameters (entry state), local variables visible at
// the call and lastresult(F).
func (g *gen) checkCallGuards(st *State, callee string, lbl string, args []*Val) {
	if g.lastArgs != nil {
		g.lastArgs[callee] = args
	}
	if g.con == nil || g.dry > 0 {
		return
	}
	for gi := range g.con.CallGuards {
		cg := &g.con.CallGuards[gi]
		if !cg.Pattern.MatchString(callee) {
			continue
		}
		if cg.Ordinal > 0 && g.callOrdinal(callee) != cg.Ordinal {
			continue
		}
		cg.Used = true
		env := g.specEnv(st, g.entry)
		g.bindLocals(env)
		g.guardArgs = args
		f := g.evalBool(cg.Cond.Expr, env, true)
		g.guardArgs = nil
		g.oblige(st, "guard-call", cg.Cond.Label+":"+callee, f, "call of "+callee+" only when: "+cg.Cond.Text)
	}
}

func (g *gen) checkStoreGuards(st *State, k LeafKey, local bool, val *Term) {
	if g.con == nil || g.dry > 0 {
		return
	}
	for gi := range g.con.StoreGuards {
		sg := &g.con.StoreGuards[gi]
		name := shortType(k.Type) + "." + k.Path
		// a guard marked "+" also covers stores into objects allocated by this call
		if local && !sg.Fresh {
			continue
		}
		if !sg.Pattern.MatchString(name) {
			continue
		}
		g.storedVal = val
		defer func() { g.storedVal = nil }()
		sg.Used = true
		env := g.specEnv(st, g.entry)
		g.bindLocals(env)
		f := g.evalBool(sg.Cond.Expr, env, true)
		g.oblige(st, "guard-store", sg.Cond.Label+":"+name, f, "store to "+name+" only when: "+sg.Cond.Text)
	}
}

// bindLocals exposes source-level locals (dominator-correct) to a contract expression.
func (g *gen) bindLocals(env *SpecEnv) {
	if g.iterTerm != nil {
		// completed iterations of the innermost cut loop around this point
		env.vars["iter__"] = &SV{V: scalar(types.Typ[types.Int], g.iterTerm)}
	}
	// fallback for names that are not visible on every path to this point: if
	// the variable denotes one single SSA value in the whole function, that
	// value is used (it is arbitrary on paths that did not define it; the
	// contract must guard its use with the path condition)
	for name, set := range g.varAll {
		if _, ok := g.varAt[name]; ok || len(set) != 1 {
			continue
		}
		if _, isParam := env.vars[name]; isParam {
			continue
		}
		if _, cell := g.varAt["&"+name]; cell {
			continue // an address-taken local: its cell's current content is the value (below)
		}
		for v := range set {
			if val, ok := g.vals[v]; ok {
				env.vars[name] = &SV{V: val}
				if env.fallback == nil {
					env.fallback = map[string]bool{}
				}
				env.fallback[name] = true
			}
		}
	}
	for name, v := range g.varAt {
		if strings.HasPrefix(name, "&") {
			n := name[1:]
			// a parameter that lives in a cell (reassigned and address-taken in
			// the body): outside old() its name means the cell's current content
			if _, direct := g.varAt[n]; direct {
				continue
			}
			if pv, ok := g.vals[v]; ok && pv.Addr != nil && pv.Addr.Known && isPointer(pv.T) {
				et := pv.T.Underlying().(*types.Pointer).Elem()
				if isStructT(et) {
					env.vars[n] = &SV{Ptr: pv}
				} else {
					env.vars[n] = &SV{V: g.loadQuiet(env.cur, pv, et)}
				}
			}
			continue
		}
		if _, isParam := env.vars[name]; isParam {
			continue
		}
		if val, ok := g.vals[v]; ok {
			env.vars[name] = &SV{V: val}
		} else if c, ok := v.(*ssa.Const); ok {
			env.vars[name] = &SV{V: g.constVal(c)}
		}
	}
}

// havocTypeWide implements the modifies targets allof(T.f) and allelems(T).
func (g *gen) havocTypeWide(st *State, env *SpecEnv, kind string, arg ast.Expr) {
	var t types.Type
	path := ""
	if kind == "allof" {
		sel, ok := arg.(*ast.SelectorExpr)
		if !ok {
			env.fail("allof(T.field) expected")
			return
		}
		t = env.resolveType(sel.X)
		if t == nil {
			env.fail("allof: unknown type %s", exprString(sel.X))
			return
		}
		st0, ok := t.Underlying().(*types.Struct)
		if !ok {
			env.fail("allof: not a struct type")
			return
		}
		var ft types.Type
		for i := 0; i < st0.NumFields(); i++ {
			if st0.Field(i).Name() == sel.Sel.Name {
				ft = st0.Field(i).Type()
			}
		}
		if ft == nil {
			env.fail("allof: no field %s", sel.Sel.Name)
			return
		}
		a := &AddrInfo{Root: t, Path: sel.Sel.Name, Known: true}
		for _, l := range leavesOf(ft) {
			if l.Kind == LKOpaque {
				continue
			}
			k := g.leafKeyL(a, l)
			g.recordWrite(k, l.Sort())
			old := st.heap.Get(k, l.Sort(), SInt)
			nb := baseHV(FreshFunName("H.allof."+sanitize(k.String())), old.sort, old.hasKey, old.keySort)
			setFacts(nb, k, st.wm)
			st.heap = st.heap.With(k, nb)
		}
		_ = path
		return
	}
	t = env.resolveType(arg)
	if t == nil {
		env.fail("allelems: unknown type %s", exprString(arg))
		return
	}
	a := &AddrInfo{Root: t, Known: true, Elem: true}
	for _, l := range leavesOf(t) {
		if l.Kind == LKOpaque {
			continue
		}
		k := g.leafKeyL(a, l)
		g.recordWrite(k, l.Sort())
		old := st.heap.Get(k, l.Sort(), SInt)
		nb := baseHV(FreshFunName("H.allelems."+sanitize(k.String())), old.sort, old.hasKey, old.keySort)
		setFacts(nb, k, st.wm)
		st.heap = st.heap.With(k, nb)
	}
}

func (g *gen) checkCalleeFrame(st *State, env *SpecEnv, con *Contract, lbl string) {
	if g.con == nil || g.sweep || g.con.ModAll || g.dry > 0 {
		return
	}
	pos := g.curPos()
	if con.ModAll {
		g.oblige(st, "frame", "call:"+lbl, False, "callee "+shortName(con.Key)+" modifies * but this function declares a narrower frame")
		return
	}
	for i, m := range con.Modifies {
		if c, ok := m.(*ast.CallExpr); ok {
			if id, ok := c.Fun.(*ast.Ident); ok {
				switch id.Name {
				case "elems":
					sv := env.eval(c.Args[0])
					if sv != nil && sv.V != nil && isSlice(sv.V.T) {
						et := sv.V.T.Underlying().(*types.Slice).Elem()
						p := &Val{T: types.NewPointer(et), L: []*Term{sv.V.Arr()}, Addr: &AddrInfo{Root: et, Elem: true, Idx: sv.V.Off(), Known: true}}
						st2 := &State{reach: And(st.reach, Lt(Int(0), sv.V.Len())), heap: st.heap, wm: st.wm}
						g.checkFrameElems(st2, p, pos, nil)
					}
					continue
				case "allof", "allelems", "mapof":
					found := false
					for _, own := range g.con.ModText {
						if own == con.ModText[i] {
							found = true
						}
					}
					if !found {
						g.oblige(st, "frame", "call:"+lbl, False, "callee frame "+con.ModText[i]+" is not part of this function's modifies clause")
					}
					continue
				case "ghostbytes":
				}
			}
		}
		a := env.evalAddr(m)
		if a == nil || a.V == nil || a.V.Addr == nil || !a.V.Addr.Known {
			continue
		}
		et := a.V.T.Underlying().(*types.Pointer).Elem()
		g.checkFrame(st, a.V, et, pos)
	}
}

// callOrdinal: position (1-based, source order) of the current call among the
// call sites of the same callee name in this function.
func (g *gen) callOrdinal(callee string) int {
	if g.curInstr == nil {
		return 0
	}
	if g.callSites == nil {
		g.callSites = map[string][]token.Pos{}
		for _, b := range g.fn.Blocks {
			for _, ins := range b.Instrs {
				var cc *ssa.CallCommon
				switch x := ins.(type) {
				case *ssa.Call:
					cc = &x.Call
				case *ssa.Defer:
					cc = &x.Call
				case *ssa.Go:
					cc = &x.Call
				}
				if cc == nil {
					continue
				}
				name := ""
				if cc.IsInvoke() {
					name = cc.Method.Name()
				} else if f, ok := cc.Value.(*ssa.Function); ok {
					name = f.Name()
				}
				if name != "" {
					g.callSites[name] = append(g.callSites[name], ins.Pos())
				}
			}
		}
		for k := range g.callSites {
			ps := g.callSites[k]
			sort.Slice(ps, func(i, j int) bool { return ps[i] < ps[j] })
		}
	}
	for i, p := range g.callSites[callee] {
		if p == g.curInstr.Pos() {
			return i + 1
		}
	}
	return 0
}
