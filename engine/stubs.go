package main

func cmdReplay(args []string) int { return 0 }

func (e *Engine) tryReplay(sr *SolveResult, rf *replayFile) bool { return false }
