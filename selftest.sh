#!/bin/bash
# Must-fail corpus: every directory under selftest/ and seeded/ holds patch.diff
# (relative to the /repo root) and meta.json {"property": "Cxx", ...}. Each patch is applied to a
# scratch copy of /repo/teamserver; the property's check must exit 1 there.
# usage: selftest.sh [name ...]     (default: all)
set -u
cd /verif
export GOFLAGS=-mod=mod GOPROXY=off GOSUMDB=off GOTOOLCHAIN=local
fail=0
dirs=()
if [ $# -gt 0 ]; then for n in "$@"; do for b in selftest seeded; do [ -d $b/$n ] && dirs+=($b/$n); done; done
else for d in selftest/*/ seeded/*/; do [ -f $d/patch.diff ] && dirs+=(${d%/}); done; fi
for d in "${dirs[@]}"; do
  prop=$(python3 -c "import json;print(json.load(open('$d/meta.json'))['property'])")
  # a fixed scratch path keeps the go build cache warm between mutants
  S=${HVC_SELF_DIR:-/var/tmp/hvc-self}   # set HVC_SELF_DIR to run several selftests at the same time
  rm -rf $S; mkdir -p $S/repo && cp -r /repo/teamserver $S/repo/teamserver
  if ! (cd $S/repo && patch -p1 -s < /verif/$d/patch.diff); then echo "SELFTEST $d: patch does not apply"; fail=1; rm -rf $S; continue; fi
  out=$(HVC_REPO=$S/repo/teamserver HVC_OUT=$S/out ${HVC_BIN:-bin/hvc} check $prop --tier quick 2>&1); rc=$?
  viol=$(echo "$out" | grep -c '^VIOLATION')
  if [ $rc -eq 1 ] && [ $viol -gt 0 ]; then
    echo "SELFTEST $d: caught by $prop ($viol violations): $(echo "$out" | grep '^VIOLATION' | head -3 | sed 's/.*obligation=//' | tr '\n' ';')"
  else
    echo "SELFTEST $d: MISSED by $prop (exit $rc)"; fail=1
  fi
  rm -rf $S
done
exit $fail
