#!/bin/bash
# ingest_seed.sh <prop> <srcdir> <name> <pkg dir relative to teamserver> [<-run pattern>] : confirm a seeded change and store it under /verif/seeded/<name>
set -u
prop=$1; src=$2; name=$3; pkg=$4; run=${5:-.}
export GOFLAGS=-mod=mod GOPROXY=off GOSUMDB=off GOTOOLCHAIN=local
S=$(mktemp -d /var/tmp/hvc-seed.XXXXXX)
mkdir -p $S/repo && cp -r /repo/teamserver $S/repo/teamserver
cp $src/demo_test.go $S/repo/teamserver/$pkg/zz_demo_test.go
cd $S/repo/teamserver
go build ./... >/dev/null 2>&1 || { echo "build fails on clean copy"; }
clean=$(go test -vet=off -count=1 -timeout 120s -run "$run" ./$pkg/ 2>&1 | tail -3 | tr '\n' ' ')
(cd $S/repo && patch -p1 -s < $src/patch.diff) || { echo "PATCH DOES NOT APPLY"; rm -rf $S; exit 1; }
go build ./... 2>&1 | tail -3
mut=$(go test -vet=off -count=1 -timeout 120s -run "$run" ./$pkg/ 2>&1 | tail -3 | tr '\n' ' ')
echo "clean:   $clean"; echo "mutated: $mut"
mkdir -p /verif/seeded/$name
cp $src/patch.diff /verif/seeded/$name/patch.diff
cp $src/demo_test.go /verif/seeded/$name/demo_test.go.txt
python3 - "$prop" "$src" "$name" "$pkg" "$clean" "$mut" <<'PY'
import json,sys
prop,src,name,pkg,clean,mut=sys.argv[1:7]
meta={"property":prop,"origin":"independent sub-agent given only the property text and a scratch worktree","needs":open(src+"/meta.txt").read(),"demo_package_dir":"teamserver/"+pkg,
 "confirmed":{"demo_on_clean_tree":clean,"demo_with_change":mut,"how":"scratch copy of /repo/teamserver under /var/tmp: demo test copied into the package, go test run before and after patch -p1 < patch.diff"}}
json.dump(meta,open('/verif/seeded/%s/meta.json'%name,'w'),indent=1)
PY
rm -rf $S
