#!/bin/bash
# try_mut.sh <prop> <patch.diff> : apply a change to a scratch copy of /repo/teamserver and run the property's quick check there
set -u
prop=$1; patch=$2
S=/var/tmp/hvc-mut
rm -rf $S; mkdir -p $S/repo && cp -r /repo/teamserver $S/repo/teamserver
if ! (cd $S/repo && patch -p1 -s < $patch); then echo "[$prop $(basename $patch)] PATCH DOES NOT APPLY"; rm -rf $S; exit 2; fi
out=$(cd /verif && HVC_REPO=$S/repo/teamserver HVC_OUT=$S/out ${HVC_BIN:-bin/hvc} check $prop --tier quick 2>&1); rc=$?
echo "[$prop $(basename $patch)] exit=$rc $(echo "$out" | grep '^VIOLATION' | sed 's/.*obligation=//' | head -4 | tr '\n' ';' | cut -c1-260)"
rm -rf $S
