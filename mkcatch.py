#!/usr/bin/env python3
# mkcatch.py: regenerate the "which obligation reports which change" table of DESIGN.md (section 10)
# from selftest_last.log (one SELFTEST line per change; a later line for the same change wins).
import re
rows = {}
for l in open('/verif/selftest_last.log', errors='replace'):
    m = re.match(r'SELFTEST (\S+): caught by (\S+) \((\d+) violations\): (.*)', l)
    if not m:
        m2 = re.match(r'SELFTEST (\S+): (NOT CAUGHT.*|.*)', l)
        if m2 and 'caught by' not in l:
            rows[m2.group(1)] = None
        continue
    name, prop, n, obs = m.groups()
    obs = [o.strip() for o in obs.split(';') if o.strip()]
    rows[name] = (prop, obs)
def short(o):
    for p in ('server.(*Teamserver).', 'agent.(*Agent).', 'handlers.(*HTTP).', 'builder.(*Builder).'):
        o = o.replace(p, '…')
    return o
out = []
key = lambda k: (0 if k.startswith('selftest/') else 1, rows[k][0] if rows[k] else 'Z', k)
for name in sorted(rows, key=key):
    if rows[name] is None:
        out.append('| %s | — | **not caught** |' % name); continue
    prop, obs = rows[name]
    subst = [o for o in obs if not o.startswith(('spec:', 'vac:'))] or obs
    replayed = any('no-failing-input-found' not in o for o in subst)
    names = []
    for o in subst:
        o = short(o.replace(' no-failing-input-found', ''))
        if len(o) > 110: o = o[:108] + '…'
        if o not in names: names.append(o)
    cell = '; '.join(n.replace('|', '\\|') for n in names[:2])
    if replayed: cell += ' **(input replayed)**'
    out.append('| %s | %s | %s |' % (name, prop, cell))
lines = open('/verif/DESIGN.md').read().split('\n')
first = next(i for i, l in enumerate(lines) if l.startswith('| selftest/') )
last = max(i for i, l in enumerate(lines) if l.startswith(('| seeded/', '| selftest/')))
lines[first:last + 1] = out
open('/verif/DESIGN.md', 'w').write('\n'.join(lines))
print(len(out), 'rows,', sum(1 for n in rows if rows[n] is None), 'not caught')
