#!/usr/bin/env python3
# Regenerates MANIFEST.json from specs/props.json + manifest_meta.json (kept by hand).
import json, subprocess
props = json.load(open('/verif/specs/props.json'))
meta = json.load(open('/verif/manifest_meta.json'))
baseline = json.load(open('/root/.vp/BASELINE.json'))['cmd']
checks = []
for pid in sorted(props):
    m = meta['checks'].get(pid, {})
    checks.append({
        "property_id": pid,
        "quick_cmd": f"bin/hvc check {pid} --tier quick",
        "thorough_cmd": f"bin/hvc check {pid} --tier thorough",
        "evidence_file": f"/verif/evidence/{pid}.json",
        "replay_cmd_template": "bin/hvc replay {path}",
        "engine": "hvc",
        "level_claimed": {"category": "proof", "text": m.get("text", ""), "design_ref": m.get("design_ref", "DESIGN.md §6 " + pid)},
        "level_note": m.get("note", ""),
        "technique": m.get("technique", "contract-based deductive verification: WP/VC generation over go/ssa of the real code, contracts in //@ comment files, obligations discharged by z3/cvc5"),
    })
na = [{"property_id": k, "reason": v} for k, v in sorted(meta['not_applicable'].items()) if k not in props]
try:
    commits = subprocess.check_output(['git', '-C', '/repo', 'log', '--format=%h %s', '1941b54..HEAD'], text=True).strip().split('\n')
except Exception:
    commits = []
man = {
    "version": 1,
    "setup_cmd": "cd /verif/engine && GOFLAGS=-mod=mod GOPROXY=off GOSUMDB=off GOTOOLCHAIN=local go build -o ../bin/hvc . && cd /verif && bin/hvc warm",
    "hooks": {
        "guard": "verif",
        "enable": "comment-only contract files hvc_contracts_verif.go carry //go:build verif; hvc loads /repo/teamserver with -tags=verif. No executable code is added by the hooks.",
        "baseline_off_cmd": baseline,
        "source_commits": [c for c in commits if c.split(' ', 1)[1].startswith('verif:')],
        "add_only": True,
    },
    "engines": [{"name": "hvc", "path": "/verif/engine", "serves_properties": sorted(props), "kind_free_text": "own VC generator over go/ssa + SMT (z3 5.1.0, cvc5 1.0.3, z3 4.8.12); contracts as //@ comments; replay through go test -overlay"}],
    "checks": checks,
    "not_applicable": na,
    "notes": meta.get("notes", ""),
}
json.dump(man, open('/verif/MANIFEST.json', 'w'), indent=1)
print("MANIFEST.json written:", len(checks), "checks,", len(na), "not applicable")
