#!/bin/bash
# run every registered check on the unchanged tree, then the must-fail corpus
cd /verif
rc=0
for p in $(python3 -c "import json;print(' '.join(sorted(json.load(open('specs/props.json')))))"); do
  out=$(bin/hvc check $p --tier ${1:-quick} 2>&1); r=$?
  echo "$out" | tail -1
  if [ $r -ne 0 ]; then echo "$out" | grep VIOLATION | cut -c1-300; rc=1; fi
done
exit $rc
