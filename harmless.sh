#!/bin/bash
# Must-pass corpus: behaviour-preserving edits under harmless/ (patch.diff relative to the /repo root,
# meta.json {"property": "Cxx"}). Each is applied to a scratch copy; the property's check must exit 0.
set -u
cd /verif
fail=0
for d in harmless/*/; do
  d=${d%/}
  prop=$(python3 -c "import json;print(json.load(open('$d/meta.json'))['property'])")
  S=/var/tmp/hvc-harmless
  rm -rf $S; mkdir -p $S/repo && cp -r /repo/teamserver $S/repo/teamserver
  if ! (cd $S/repo && patch -p1 -s < /verif/$d/patch.diff); then echo "HARMLESS $d: patch does not apply"; fail=1; rm -rf $S; continue; fi
  out=$(HVC_REPO=$S/repo/teamserver HVC_OUT=$S/out ${HVC_BIN:-bin/hvc} check $prop --tier quick 2>&1); rc=$?
  if [ $rc -eq 0 ]; then echo "HARMLESS $d: quiet ($prop)"; else echo "HARMLESS $d: FALSE ALARM by $prop: $(echo "$out" | grep '^VIOLATION' | head -2 | sed 's/.*obligation=//' | tr '\n' ';')"; fail=1; fi
  rm -rf $S
done
exit $fail
